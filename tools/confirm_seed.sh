#!/bin/bash
# tools/confirm_seed.sh <seed-name> <dir containing patch.diff demo/ meta.json>
# Confirms a seeded change independently in a scratch worktree of /repo HEAD and stores it under /verif/seeded/<seed-name>/.
set -u
name="$1"; src="$2"
. /verif/env.sh
wt=/tmp/confirm-$name
git -C /repo worktree remove --force "$wt" 2>/dev/null; rm -rf "$wt"
git -C /repo worktree add -q --detach "$wt" HEAD || exit 2
log=$(mktemp)
res() { echo "$1" | tee -a "$log"; }
cd "$wt"
bash "$src/demo/run.sh" "$wt" >"$log.clean" 2>&1; clean=$?
res "demo on clean tree: exit=$clean (want 0)"
if ! git apply --3way "$src/patch.diff" 2>"$log.apply" && ! git apply "$src/patch.diff" 2>>"$log.apply"; then res "patch does not apply: $(head -3 $log.apply)"; applied=1; else applied=0; fi
git reset -q 2>/dev/null
go build ./... >"$log.build" 2>&1; b=$?
res "go build with change: exit=$b"
go test -vet=off -count=1 ./... >"$log.test" 2>&1; t=$?
res "go test with change: exit=$t ($(grep -c '^ok' $log.test) packages ok, $(grep -c '^FAIL\|^--- FAIL' $log.test) FAIL lines)"
git checkout -q -- testdata gengo.sum 2>/dev/null
bash "$src/demo/run.sh" "$wt" >"$log.mut" 2>&1; mut=$?
res "demo on changed tree: exit=$mut (want non-zero)"
cd /
git -C /repo worktree remove --force "$wt"; rm -rf "$wt"
if [ $clean -eq 0 ] && [ $applied -eq 0 ] && [ $b -eq 0 ] && [ $t -eq 0 ] && [ $mut -ne 0 ]; then
  dst=/verif/seeded/$name; rm -rf "$dst"; mkdir -p "$dst"
  cp "$src/patch.diff" "$dst/"; cp -r "$src/demo" "$dst/demo"
  python3 - "$src/meta.json" "$dst/meta.json" "$log" <<'PY'
import json,sys
m=json.load(open(sys.argv[1]))
m["confirmed_by_me"]=[l.strip() for l in open(sys.argv[3]) if l.strip()]
m["confirm_procedure"]="tools/confirm_seed.sh: scratch worktree of /repo HEAD; demo on clean tree (exit 0); git apply patch; go build ./...; go test -vet=off -count=1 ./... (pass); demo again (non-zero); worktree removed"
json.dump(m,open(sys.argv[2],"w"),indent=1)
PY
  echo "KEPT $dst"
else
  echo "REJECTED $name"; tail -5 "$log.clean" "$log.mut" "$log.test" 2>/dev/null | head -40
fi
rm -f "$log" "$log".*
