#!/bin/bash
# tools/try_seed.sh <seed-name> <ID> [tier]  — apply a seeded change to /repo, run one check, undo.
name="$1"; id="$2"; tier="${3:-quick}"
cd /verif
if [ -n "$(git -C /repo status --porcelain)" ]; then echo "/repo not clean"; exit 2; fi
git -C /repo apply "/verif/seeded/$name/patch.diff" || git -C /repo apply --3way "/verif/seeded/$name/patch.diff" || { git -C /repo reset -q --hard HEAD; echo "patch does not apply"; exit 2; }
git -C /repo reset -q
./check "$id" "$tier" > /tmp/try-$name-$id.log 2>&1; rc=$?
git -C /repo checkout -- . ; git -C /repo clean -fdq -- pkg devpkg 2>/dev/null
# the binaries under bin/ were built from the patched tree: rebuild the plain one from the restored tree
# (the variant binaries are rebuilt by every ./check call anyway)
( . /verif/env.sh; cd /verif/mc && go build -o ../bin/vcheck ./cmd/vcheck ) >/dev/null 2>&1
echo "seed=$name check=$id tier=$tier exit=$rc  $(grep -c '^VIOLATION' /tmp/try-$name-$id.log) VIOLATION lines"
grep -A1 '^VIOLATION' /tmp/try-$name-$id.log | head -4 | cut -c1-500
tail -1 /tmp/try-$name-$id.log | cut -c1-300
exit $rc
