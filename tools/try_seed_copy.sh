#!/bin/bash
# tools/try_seed_copy.sh <seed-name> <ID> [tier] [slot]
# Like try_seed.sh, but never touches /repo or /verif/bin: the seed is applied to a scratch COPY of /repo and the
# check runs from a scratch COPY of /verif whose module points at that copy. Several slots can run side by side
# (and next to a `vp run` sweep). The copies live under /tmp/gvf-slot-<slot> and are refreshed on every call.
name="$1"; id="$2"; tier="${3:-quick}"; slot="${4:-0}"
S=/tmp/gvf-slot-$slot
mkdir -p $S
rsync -a --delete --exclude .git/worktrees /repo/ $S/repo/ || exit 2
rsync -a --delete --exclude .git --exclude bin --exclude evidence --exclude replays --exclude seeded --exclude 'mc/.overlay' /verif/ $S/verif/ || exit 2
git -C $S/repo checkout -q -- . 2>/dev/null
git -C $S/repo apply "/verif/seeded/$name/patch.diff" || { echo "seed=$name patch does not apply"; exit 2; }
sed -i "s|=> /repo\$|=> $S/repo|" $S/verif/mc/go.mod
( cd $S/verif && REPO=$S/repo VERIF_ROOT=$S/verif ./check "$id" "$tier" > /tmp/try-$name-$id.log 2>&1 ); rc=$?
echo "seed=$name check=$id tier=$tier exit=$rc  $(grep -c '^VIOLATION' /tmp/try-$name-$id.log) VIOLATION lines"
grep -A1 '^VIOLATION' /tmp/try-$name-$id.log | head -4 | cut -c1-500
tail -1 /tmp/try-$name-$id.log | cut -c1-300
exit $rc
