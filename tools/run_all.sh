#!/bin/bash
# tools/run_all.sh [tier]  — runs every claimed check once (rewrites all evidence files)
tier="${1:-quick}"
cd /verif
rc=0
for id in $(python3 -c "import json;print(' '.join(c['property_id'] for c in json.load(open('MANIFEST.json'))['checks']))"); do
  ./check $id $tier | tail -1; r=${PIPESTATUS[0]}; [ $r -ne 0 ] && rc=$r
done
python3-vt tools/validate.py
exit $rc
