#!/usr/bin/env python3
import json, sys
pid = sys.argv[1]; n = sys.argv[2] if len(sys.argv) > 2 else ""
p = [json.loads(l) for l in open('/verif/properties.jsonl') if json.loads(l)['id'] == pid][0]
wt = f"/tmp/wt-{pid}{n}"
print(f"""You are helping test a verification effort for the Go library octohelm/gengo (a Go code-generation framework: loads packages via go/packages, snippet templating, import naming, sample generators deepcopy / runtimedoc / partialstruct, plus camelcase and inflector helpers).

Your own scratch git worktree of the repository is at {wt} . Work ONLY inside {wt} (and, for throw-away files, inside {wt}/.scratch which you may create). Do NOT read or touch /repo, /verif or any other worktree under /tmp.

PROPERTY (this is the semantic property users rely on):
  Title: {p['title']}
  Statement: {p['statement']}
  Quantified over: {p['quantifier']['text']}
  Relevant files: {', '.join(p['anchors']['files'])}

TASK: produce ONE realistic change (a bug a maintainer could plausibly introduce during a refactor / optimisation / feature addition) to the library's non-test source in {wt} that BREAKS this property, while
  (a) the repository still compiles (`go build ./...`), and
  (b) the repository's existing test suite still passes unchanged (`go test -vet=off -count=1 ./...` from {wt}; do not edit, add or delete any *_test.go or testdata file as part of the change), and
  (c) the breakage needs something SPECIFIC to manifest — a particular interleaving, a fault/crash at a particular point, a multi-step sequence of operations, an unusual input, or two cooperating sites that each look fine alone. It must NOT be something that ordinary use would expose at once (e.g. not "every call now returns garbage").
Keep the change small (a few lines, at most ~30) and plausible. Prefer subtle: shared mutable state hoisted to package scope, cursor/offset off-by-one reached only by particular inputs, a missing sort, a check-then-act window, a cache key that forgets a component, an early return that skips cleanup, etc.

Then write a DEMONSTRATION: a standalone Go test file or small Go program (put it under {wt}/.scratch/demo/ with its own instructions, or as a new *_test.go file that is NOT part of the patch) that FAILS with your change applied and PASSES on the original code. Verify both directions yourself (use `git diff > .scratch/my.patch; git checkout -- .; ... ; git apply .scratch/my.patch` inside the worktree; do NOT use `git stash`: the stash is shared between all worktrees of the repository and other participants are working at the same time).

ENVIRONMENT (the sandbox is offline; use exactly this in every shell call, env does not persist between calls):
  export PATH=/root/go/pkg/mod/golang.org/toolchain@v0.0.1-go1.24.2.linux-amd64/bin:$PATH GOTOOLCHAIN=local GOFLAGS=-mod=mod GOPROXY=off
  cd {wt} && go build ./... && go test -vet=off -count=1 ./...
Notes: the test suite's TestPkgGenerator rewrites files under testdata/ and gengo.sum when run — restore them with `git checkout -- testdata gengo.sum` before producing your patch. If your demonstration needs a temporary Go module, it must have a `go 1.24` directive and, to import the library, `require github.com/octohelm/gengo v0.0.0` + `replace github.com/octohelm/gengo => {wt}` and a copy of {wt}/go.sum.

DELIVERABLES (files, all inside {wt}/.scratch/out/):
  patch.diff   — `git diff` of ONLY the library change (no tests, no testdata, no .scratch)
  demo/        — the demonstration (files + a run.sh that exits non-zero when the property is broken and 0 when it holds; run.sh takes the path of the gengo checkout to test as $1 and must not depend on the current directory)
  meta.json    — {{"property": "{pid}", "summary": "...what the change does...", "needs_to_manifest": "...the specific input/sequence/interleaving/fault needed...", "why_tests_still_pass": "...", "commands_run": ["..."]}}
Finish by restoring the worktree to a clean state EXCEPT for the untracked .scratch directory (`git checkout -- .`), and reply with a short summary: what the change is, what is needed to trigger it, and confirmation of (a), (b), and that the demo fails with / passes without the change.""")
import glob, os
taken = []
for d in sorted(glob.glob(f'/verif/seeded/{pid}-*/meta.json')):
    try:
        taken.append(json.load(open(d)).get('summary', '')[:220].replace('\n', ' '))
    except Exception:
        pass
if taken and os.environ.get('AVOID', '1') == '1':
    print("\nIDEAS ALREADY TAKEN by earlier participants (produce something DIFFERENT in mechanism and in the code site it touches, not a variation of these):")
    for t in taken:
        print("  - " + t + " ...")
