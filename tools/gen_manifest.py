#!/usr/bin/env python3
"""Regenerates /verif/MANIFEST.json from the table below (kept next to the checks so both move together)."""
import json, os, sys
ROOT = os.path.dirname(os.path.dirname(os.path.abspath(__file__)))
NOTE = ("bounded-exhaustive exploration of the real implementation (no separate model, so every explored trace is an "
        "implementation trace); trusted: Go toolchain 1.24.2, go/types, go/parser, gofmt/gofumpt as oracles, the harness' own reference models")

CHECKS = {
 "C02": dict(level="fault_enumeration", design="§4 C02", engine="PIPE+ENUM",
   technique="exhaustive fault injection: every fault kind at every GenerateType/Defer call index of a real multi-package run, every torn prefix of gengo.sum, depth-2 fault sequences",
   text="One fault of each of 6 kinds (error, unparseable rendering, panic, Goexit, os.Exit, SIGKILL in a child) at every callback index x All on/off, from a state whose previous outputs and gengo.sum were produced by the real system; oracles: error text, byte snapshots of the tree, the next clean run regenerates everything and reaches the files of the never-failed run (differential). Thorough: all depth-2 fault sequences and every torn prefix of gengo.sum."),
 "C05": dict(level="model_checking", design="§4 C05", engine="PIPE",
   technique="exhaustive enumeration of all ordered entrypoint selections x All x generator orders through the real pipeline, differential against the package-alone run",
   text="All 64 ordered non-empty selections of 4 packages x All on/off x generator orders with stateful generators (no New / custom New / pre-allocated reference state) and the repo's own generators; bytes(P together) == bytes(P alone) for every processed package."),
 "C06": dict(level="model_checking", design="§4 C06", engine="PIPE+SEAM",
   technique="exhaustive product of tag placements (global x package x declaration) x declaration kinds x prefix-related generator names through the real pipeline vs a reference enablement model; all small Defer shapes",
   text="Every placement of <=2-tag sets out of 7 tags at three levels (29x29 per global set; quick 12, thorough 29 global sets) against a package holding every declaration kind (struct, scalar, generic, grouped, alias, foreign alias, function-local, method-local, shadowing type parameters); recorded GenerateType/GenerateAliasType multiset == reference model. Defer: 0..2 callbacks x 3 types x erroring index x previous file."),
 "C07": dict(level="model_checking", design="§4 C07", engine="PIPE",
   technique="exhaustive enumeration of 1- and 2-run histories over all generator behaviour pairs x All x pre-existing file subsets; whole-tree diff vs allowed-set model",
   text="Histories of one and two real runs over all 25 behaviour pairs per run {render, nothing, ErrSkip, ErrIgnore, ErrIgnore+render} x All on/off x base names, one package per subset of 8 pre-existing file kinds (look-alike names, stale outputs, previous outputs) plus imported and never-selected packages; every file of the module is compared before/after."),
 "C08": dict(level="model_checking", design="§4 C08", engine="PIPE+ENUM",
   technique="explicit-state search over operation histories on real module trees (dedup by exact tree hash), each run transition executed by the real pipeline and judged against harness-computed hashes",
   text="16 operations (toggling edits, sum deletion/4 corruptions, dangling symlink, 5 kinds of runs) to history length 3 (thorough 4), two layouts (incl. package in module root); skip <=> not Force and recorded == current for every package of every run; exact sum file contents; convergence of repeated runs from every state up to depth 2 (3)."),
 "C09": dict(level="model_checking", design="§4 C09", engine="ENUM",
   technique="exhaustive enumeration of all format strings up to a length bound x binding kinds against an independent reference renderer",
   text="T: every format <=5 (thorough <=6) over 12 symbols x 6 binding kinds; Sprintf: every format <=5 (6) over 8 symbols x all argument lists <=2; Comment/GoDirective/Snippets/Fragments over all small argument lists; panic <=> reference panics, else byte equality."),
 "C15": dict(level="model_checking", design="§4 C15", engine="ENUM",
   technique="exhaustive enumeration of the reference grammar to bounded depth/width; round trip + independent reference rewriter",
   text="Every reference string of the grammar inside the listed (heads, depth, width) spaces (up to depth 3, ~370k strings quick, ~12.7M thorough): ParseTypeRef round trip and tree equality, ParseRef/PkgImportPathAndExpose agreement, rendering vs the harness' own rewriter, tracker holds exactly the foreign paths."),
 "C01": dict(level="model_checking", design="§4 C01", engine="PIPE+ENUM",
   technique="exhaustive enumeration of rendered-fragment sequences x import sets x modules through the real pipeline; parse/gofmt/gofumpt fixed-point and reference-assembly oracles on every written file; all 2-run regeneration histories",
   text="Every sequence of <=2 (thorough <=3) fragments from a 22-item menu x 7 import-reference sets on the first module, shorter sequences on 6 more (module path, go directive) combinations; each written file: parses, header names the generator, package clause, gofmt and gofumpt fixed point, flattened declarations and comments == those of the harness' reference assembly. Histories: every ordered fragment pair as long->short and short->long regeneration over the existing file."),
 "C03": dict(level="model_checking", design="§4 C03", engine="ENUM+PIPE",
   technique="explicit-state BFS over reference-operation sequences on the real tracker/namer with per-state invariants; exhaustive path enumeration; tracker-session histories in fresh processes; file-level replay through the pipeline",
   text="Level 1: all paths <=3 segments over 14 (thorough 22) segments. Level 2: BFS to depth 3 (4) over 33 reference ops (all kinds) on 14 colliding paths, states deduplicated by the tracker map, bijection/validity/none-missing/none-unused/stable-name/text invariants after every op. Level 2b: all histories of 2-3 tracker sessions in one fresh process. Level 3: all sequences <=2 (3) of paths rendered through the pipeline and the written file parsed."),
 "C04": dict(level="model_checking", design="§4 C04", engine="SEAM+PIPE",
   technique="map-iteration order owned by a build-overlay seam: all policy vectors with a bounded number of deviating range-over-map sites; all entrypoint sequences; repeated runs in-process and in fresh processes; byte equality",
   text="One order-sensitive module x 6 generators. All policy vectors over the 14 range-over-map sites with <=2 (thorough <=3) deviating sites x 3 policies (862 / ~9k executions), every entrypoint sequence <=3 over 5 spellings x All on/off, 3 consecutive runs (in-process per policy, and one fresh process per run): generated files + gengo.sum byte-identical to the reference execution, identical callback sequence, later runs change nothing."),
 "C10": dict(level="model_checking", design="§4 C10", engine="ENUM+GOCHECK",
   technique="exhaustive enumeration of a bounded value model; rendered by the real code in a compiled program, each literal type-checked alone in the target package, survivors compiled and compared at run time",
   text="~620 (thorough ~700) values: every boundary value of every scalar type, named scalars from 3 packages, one-level pointers, nil/empty/filled slices, arrays, maps under 6 key kinds (two insertion orders), structs with zero/non-zero members of every field kind, depth-2 containers. Oracle: parses, type-checks as `var got T = text` with the registered imports, DeepEqual modulo nil==empty in a compiled program, identical text when rendered twice / for both insertion orders."),
 "C11": dict(level="model_checking", design="§4 C11", engine="ENUM+GOCHECK",
   technique="exhaustive enumeration of closed type expressions to bounded depth; rendered from go/types and from reflect; re-type-checked in one universe with types.Identical",
   text="~1.3k (thorough ~20k) type expressions (all predeclared types, error, any, local/foreign/clashing named types, generic instantiations; constructors *, [], [3], chan, map with 6 key kinds, structs with tags and embedded fields; depth <=2, thorough 3) x 2 sources (go/types, reflect via a compiled helper) x 3 targets (own package, other package, other package with a clashing import already registered); types.Identical(original, re-type-checked rendering)."),
 "C12": dict(level="model_checking", design="§4 C12", engine="ENUM",
   technique="exhaustive enumeration of declaration layouts loaded by the real loader vs the harness' own layout model; exhaustive short line lists vs a reference tag splitter",
   text="All (6 doc forms x trailing yes/no)^3 layouts for 11 declaration kinds (19k files; thorough adds ^4 for two kinds), incl. multi-line declarations with the trailing comment on the closing line: Doc, tags and Comment of every declared object. ExtractCommentTags: every line <=5 (6) over 8 symbols (also custom markers) and every pair of lines <=3 against the reference splitter."),
 "C13": dict(level="model_checking", design="§4 C13", engine="SEAM+ENUM",
   technique="exhaustive enumeration of declaration-feature combinations + the real 196-package closure, each loaded under every map-order policy (vectors with bounded deviating sites); every accessor vs go/types; all accessor call sequences of length 3",
   text="256 synthetic feature combinations + 4 dependency packages and all 196 packages of the real closure; each universe loaded per global policy (4) and per vector with <=1 (thorough <=2) deviating loader sites; Types/Constants/Functions and lookups == Scope(), MethodsOf true/false == Named.Method(i) under all 8 call sequences of length 3, Imports == import specs with identical non-nil packages, LocateInPackage/SourceDir."),
 "C14": dict(level="model_checking", design="§4 C14", engine="ENUM+SUPERVISE",
   technique="exhaustive sweep over every function/method of the real closure in supervised child processes (fatal stack overflow = violation) + exhaustive enumeration of synthetic call-graph programs over a return-form grammar",
   text="(a) all ~11k functions/methods of the closure; (b) all programs of <=2 (thorough 3) functions x 4 result shapes x 15 return forms (literals, if/switch/select/type-switch/labeled-loop/goto returns, calls, forwarding, assignment, bare return, closures with more/fewer results, interface, other package) x all callees incl. self/mutual recursion. Oracle: no crash, arity, n non-empty lists, assignable alternatives, same answer twice, literal-only functions give exactly the literals in source order."),
 "C16": dict(level="model_checking", design="§4 C16", engine="PIPE+GOCHECK",
   technique="exhaustive (thorough) / covering (quick) product of type shapes x type-doc texts x field-doc texts; generated twice by the real generator, compiled and run against the harness' source model",
   text="11 shapes x 14 type-doc texts x 11 field-doc texts (thorough: full product 1.7k packages; quick: diagonal + everything vs none/plain/leading-name + a third of the rest, ~950). Each package: generation succeeds twice byte-identically, compiles with the package, and RuntimeDoc() / RuntimeDoc(name) for every field, delegated field and unknown name equals what the harness wrote."),
 "C17": dict(level="model_checking", design="§4 C17", engine="PIPE+GOCHECK",
   technique="exhaustive enumeration of root structs over a field-kind grammar x tag placements; generated twice, compiled, exercised by a reflection-based check program",
   text="All ordered field lists of length 1..2 over 16 field kinds x tag on package/type x interfaces tag x generic root (quick ~1.2k, thorough ~2.2k packages): output identical on first and second run, compiles, DeepCopy(nil)==nil, DeepEqual, mutating every reachable slice/map of the copy leaves the original == snapshot, DeepCopyInto likewise."),
 "C18": dict(level="model_checking", design="§4 C18", engine="PIPE+GOCHECK",
   technique="exhaustive enumeration of origin field subsets x omit subsets x replace x origin location x declaration form; generated, compiled, reflected over at run time; invalid declarations must error",
   text="All subsets of 1..2 (thorough 3) fields of a 10-field menu x every omit subset x replace x same/other package x single/grouped declaration (quick ~360, thorough ~4k packages): generated struct's fields/order/types/tags == origin's retained ones, DeepCopyAs nil/values/omitted-zero; 5 invalid declarations give an Execute error and no file."),
 "C20": dict(level="model_checking", design="§4 C20", engine="SCHED+ENUM",
   technique="stateless exploration of ALL interleavings of small caller configurations at the hooked sync operations (cooperative scheduler + sync shim injected by build overlay); exhaustive sequential enumeration; fresh-process call sequences; free-running -race pass as complement",
   text="Sequential: every irregular word (read from the tree) x 3 cases x 10 prefixes x both functions with the prefix-preservation oracle, every uninflected pattern instance, case-folding variants, all strings <=3 (4) over 10 symbols, all fresh-process call sequences of length 2 (3). Concurrent: all schedules of 7 scenarios (2-3 goroutines x 1-2 calls, cold and pre-warmed; ~5.4k schedules) - every return == sequential reference, deadlock = violation; the same bodies then run free under -race."),
 "C19": dict(level="model_checking", design="§4 C19", engine="ENUM",
   technique="exhaustive enumeration of all strings up to a length bound over a rune-class alphabet; all short call sequences from fresh processes",
   text="Every string of <=4 (thorough <=5) runes over a 13-class alphabet, plus invalid UTF-8 at every position: totality, losslessness, non-empty words. Purity: all ordered call pairs in-process and every call sequence of length 2/3 (incl. two different functions) executed in a fresh process and compared with the single-call result of a fresh process."),
}
PENDING = {}

def main():
    props = [json.loads(l) for l in open(os.path.join(ROOT, "properties.jsonl"))]
    checks, na = [], []
    for p in props:
        pid = p["id"]
        if pid in CHECKS:
            c = CHECKS[pid]
            checks.append({
                "property_id": pid,
                "quick_cmd": f"./check {pid} quick",
                "thorough_cmd": f"./check {pid} thorough",
                "evidence_file": f"/verif/evidence/{pid}.json",
                "replay_cmd_template": "./check replay {path}",
                "engine": c["engine"],
                "level_claimed": {"category": c["level"], "text": c["text"] + " The alphabets have grown since this summary was written (dimensions added after seeded changes were missed): the current ones are in DESIGN.md section 0 (table) and in the `bounds` of the evidence file, which the check writes itself.", "design_ref": c["design"]},
                "level_note": c.get("note", NOTE),
                "technique": c["technique"],
            })
        else:
            na.append({"property_id": pid, "reason": PENDING.get(pid, "check not built yet in this session (planned in DESIGN.md §4); nothing is claimed for it")})
    m = {
        "version": 1,
        "setup_cmd": "./check setup",
        "hooks": {
            "guard": "verif",
            "enable": "no in-tree hooks: seams (map-iteration order, sync shim) and deliberate mutations are applied with `go build -overlay`, generated at check time from /repo's working tree by /verif/mc",
            "baseline_off_cmd": "cd /repo && PATH=/root/go/pkg/mod/golang.org/toolchain@v0.0.1-go1.24.2.linux-amd64/bin:$PATH GOFLAGS=-mod=mod GOPROXY=off go test -vet=off -count=1 ./...",
            "source_commits": [],
            "add_only": True,
        },
        "engines": [
            {"name": "ENUM", "path": "/verif/mc/core", "serves_properties": sorted(CHECKS), "kind_free_text": "stateless choice-sequence explorer (DFS over recorded choice points, deviation bound, sharded over 16 worker processes), fresh-process workers, evidence/known-finding/replay bookkeeping"},
            {"name": "SEAM", "path": "/verif/mc/overlay/zzseam + /verif/mc/cmd/seamgen + /verif/mc/seamctl", "serves_properties": ["C04", "C06", "C10", "C13"], "kind_free_text": "map-iteration-order seam: every range-over-map site of the library is rewritten at check time (go build -overlay, /repo untouched) to iterate in a canonical order transformed by a per-site policy the explorer chooses"},
            {"name": "SCHED", "path": "/verif/mc/overlay/zzsync", "serves_properties": ["C20"], "kind_free_text": "cooperative deterministic scheduler + drop-in sync shim (Map, Once*, Mutex, RWMutex, WaitGroup, Pool) injected into pkg/inflector by build overlay; DFS over scheduling choices with deviation bound; deadlock detection"},
            {"name": "GOCHECK", "path": "/verif/mc/gocheck", "serves_properties": ["C10", "C11", "C16", "C17", "C18"], "kind_free_text": "compile-and-run back end: per-package compiler diagnostics, generated main that runs harness-written reflection checks (verifkit)"},
            {"name": "PIPE", "path": "/verif/mc/pipe", "serves_properties": [k for k in sorted(CHECKS) if "PIPE" in CHECKS[k]["engine"]], "kind_free_text": "pipeline driver: synthetic modules in private scratch dirs, gengo.NewContext+Execute through the public API with data-scripted recording generators (faults, Defer, ErrSkip/ErrIgnore, stateful), tree snapshots; child-process mode for runs that die"},
        ],
        "checks": checks,
        "notes": "All checks are bounded-exhaustive explorations of the real implementation (model-checking family). Defects found are repaired by fix: commits in /repo or listed in /verif/known_findings.json.",
        "not_applicable": na,
    }
    json.dump(m, open(os.path.join(ROOT, "MANIFEST.json"), "w"), indent=1)
    print("claimed:", len(checks), "unclaimed:", len(na))

main()
