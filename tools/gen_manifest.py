#!/usr/bin/env python3
"""Regenerates /verif/MANIFEST.json from the table below (kept next to the checks so both move together)."""
import json, os, sys
ROOT = os.path.dirname(os.path.dirname(os.path.abspath(__file__)))
NOTE = ("bounded-exhaustive exploration of the real implementation (no separate model, so every explored trace is an "
        "implementation trace); trusted: Go toolchain 1.24.2, go/types, go/parser, gofmt/gofumpt as oracles, the harness' own reference models")

CHECKS = {
 "C19": dict(level="model_checking", design="§4 C19", engine="ENUM",
   technique="exhaustive enumeration of all strings up to a length bound over a rune-class alphabet against the real Split/converters",
   text="Every string of <=4 (thorough <=5) runes over a 13-class alphabet, plus invalid UTF-8 at every position, plus all ordered call pairs: totality, losslessness, non-empty words, purity. Exhaustive inside the bound; the code only branches on rune class, so one representative per class is a complete small scope."),
}
PENDING = {}

def main():
    props = [json.loads(l) for l in open(os.path.join(ROOT, "properties.jsonl"))]
    checks, na = [], []
    for p in props:
        pid = p["id"]
        if pid in CHECKS:
            c = CHECKS[pid]
            checks.append({
                "property_id": pid,
                "quick_cmd": f"./check {pid} quick",
                "thorough_cmd": f"./check {pid} thorough",
                "evidence_file": f"/verif/evidence/{pid}.json",
                "replay_cmd_template": "./check replay {path}",
                "engine": c["engine"],
                "level_claimed": {"category": c["level"], "text": c["text"], "design_ref": c["design"]},
                "level_note": c.get("note", NOTE),
                "technique": c["technique"],
            })
        else:
            na.append({"property_id": pid, "reason": PENDING.get(pid, "check not built yet in this session (planned in DESIGN.md §4); nothing is claimed for it")})
    m = {
        "version": 1,
        "setup_cmd": "./check setup",
        "hooks": {
            "guard": "verif",
            "enable": "no in-tree hooks: seams (map-iteration order, sync shim) and deliberate mutations are applied with `go build -overlay`, generated at check time from /repo's working tree by /verif/mc",
            "baseline_off_cmd": "cd /repo && PATH=/root/go/pkg/mod/golang.org/toolchain@v0.0.1-go1.24.2.linux-amd64/bin:$PATH GOFLAGS=-mod=mod GOPROXY=off go test -vet=off -count=1 ./...",
            "source_commits": [],
            "add_only": True,
        },
        "engines": [
            {"name": "ENUM", "path": "/verif/mc/core", "serves_properties": sorted(CHECKS), "kind_free_text": "stateless choice-sequence explorer (DFS over recorded choice points, deviation bound, sharded over 16 worker processes) + evidence/known-finding/replay bookkeeping"},
        ],
        "checks": checks,
        "notes": "All checks are bounded-exhaustive explorations of the real implementation (model-checking family). Defects found are repaired by fix: commits in /repo or listed in /verif/known_findings.json.",
        "not_applicable": na,
    }
    json.dump(m, open(os.path.join(ROOT, "MANIFEST.json"), "w"), indent=1)
    print("claimed:", len(checks), "unclaimed:", len(na))

main()
