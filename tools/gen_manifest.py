#!/usr/bin/env python3
"""Regenerates /verif/MANIFEST.json from the table below (kept next to the checks so both move together)."""
import json, os, sys
ROOT = os.path.dirname(os.path.dirname(os.path.abspath(__file__)))
NOTE = ("bounded-exhaustive exploration of the real implementation (no separate model, so every explored trace is an "
        "implementation trace); trusted: Go toolchain 1.24.2, go/types, go/parser, gofmt/gofumpt as oracles, the harness' own reference models")

CHECKS = {
 "C02": dict(level="fault_enumeration", design="§4 C02", engine="PIPE+ENUM",
   technique="exhaustive fault injection: every fault kind at every GenerateType/Defer call index of a real multi-package run, every torn prefix of gengo.sum, depth-2 fault sequences",
   text="One fault of each of 6 kinds (error, unparseable rendering, panic, Goexit, os.Exit, SIGKILL in a child) at every callback index x All on/off, from a state whose previous outputs and gengo.sum were produced by the real system; oracles: error text, byte snapshots of the tree, the next clean run regenerates everything and reaches the files of the never-failed run (differential). Thorough: all depth-2 fault sequences and every torn prefix of gengo.sum."),
 "C05": dict(level="model_checking", design="§4 C05", engine="PIPE",
   technique="exhaustive enumeration of all ordered entrypoint selections x All x generator orders through the real pipeline, differential against the package-alone run",
   text="All 64 ordered non-empty selections of 4 packages x All on/off x generator orders with stateful generators (no New / custom New / pre-allocated reference state) and the repo's own generators; bytes(P together) == bytes(P alone) for every processed package."),
 "C06": dict(level="model_checking", design="§4 C06", engine="PIPE",
   technique="exhaustive product of tag placements (global x package x declaration) x declaration kinds x prefix-related generator names through the real pipeline vs a reference enablement model; all small Defer shapes",
   text="Every placement of <=2-tag sets out of 7 tags at three levels (29x29 per global set; quick 12, thorough 29 global sets) against a package holding every declaration kind (struct, scalar, generic, grouped, alias, foreign alias, function-local, method-local, shadowing type parameters); recorded GenerateType/GenerateAliasType multiset == reference model. Defer: 0..2 callbacks x 3 types x erroring index x previous file."),
 "C07": dict(level="model_checking", design="§4 C07", engine="PIPE",
   technique="exhaustive enumeration of 1- and 2-run histories over all generator behaviour pairs x All x pre-existing file subsets; whole-tree diff vs allowed-set model",
   text="Histories of one and two real runs over all 25 behaviour pairs per run {render, nothing, ErrSkip, ErrIgnore, ErrIgnore+render} x All on/off x base names, one package per subset of 8 pre-existing file kinds (look-alike names, stale outputs, previous outputs) plus imported and never-selected packages; every file of the module is compared before/after."),
 "C08": dict(level="model_checking", design="§4 C08", engine="PIPE+ENUM",
   technique="explicit-state search over operation histories on real module trees (dedup by exact tree hash), each run transition executed by the real pipeline and judged against harness-computed hashes",
   text="16 operations (toggling edits, sum deletion/4 corruptions, dangling symlink, 5 kinds of runs) to history length 3 (thorough 4), two layouts (incl. package in module root); skip <=> not Force and recorded == current for every package of every run; exact sum file contents; convergence of repeated runs from every state up to depth 2 (3)."),
 "C09": dict(level="model_checking", design="§4 C09", engine="ENUM",
   technique="exhaustive enumeration of all format strings up to a length bound x binding kinds against an independent reference renderer",
   text="T: every format <=5 (thorough <=6) over 12 symbols x 6 binding kinds; Sprintf: every format <=5 (6) over 8 symbols x all argument lists <=2; Comment/GoDirective/Snippets/Fragments over all small argument lists; panic <=> reference panics, else byte equality."),
 "C15": dict(level="model_checking", design="§4 C15", engine="ENUM",
   technique="exhaustive enumeration of the reference grammar to bounded depth/width; round trip + independent reference rewriter",
   text="Every reference string of the grammar inside the listed (heads, depth, width) spaces (up to depth 3, ~370k strings quick, ~12.7M thorough): ParseTypeRef round trip and tree equality, ParseRef/PkgImportPathAndExpose agreement, rendering vs the harness' own rewriter, tracker holds exactly the foreign paths."),
 "C19": dict(level="model_checking", design="§4 C19", engine="ENUM",
   technique="exhaustive enumeration of all strings up to a length bound over a rune-class alphabet; all short call sequences from fresh processes",
   text="Every string of <=4 (thorough <=5) runes over a 13-class alphabet, plus invalid UTF-8 at every position: totality, losslessness, non-empty words. Purity: all ordered call pairs in-process and every call sequence of length 2/3 (incl. two different functions) executed in a fresh process and compared with the single-call result of a fresh process."),
}
PENDING = {}

def main():
    props = [json.loads(l) for l in open(os.path.join(ROOT, "properties.jsonl"))]
    checks, na = [], []
    for p in props:
        pid = p["id"]
        if pid in CHECKS:
            c = CHECKS[pid]
            checks.append({
                "property_id": pid,
                "quick_cmd": f"./check {pid} quick",
                "thorough_cmd": f"./check {pid} thorough",
                "evidence_file": f"/verif/evidence/{pid}.json",
                "replay_cmd_template": "./check replay {path}",
                "engine": c["engine"],
                "level_claimed": {"category": c["level"], "text": c["text"], "design_ref": c["design"]},
                "level_note": c.get("note", NOTE),
                "technique": c["technique"],
            })
        else:
            na.append({"property_id": pid, "reason": PENDING.get(pid, "check not built yet in this session (planned in DESIGN.md §4); nothing is claimed for it")})
    m = {
        "version": 1,
        "setup_cmd": "./check setup",
        "hooks": {
            "guard": "verif",
            "enable": "no in-tree hooks: seams (map-iteration order, sync shim) and deliberate mutations are applied with `go build -overlay`, generated at check time from /repo's working tree by /verif/mc",
            "baseline_off_cmd": "cd /repo && PATH=/root/go/pkg/mod/golang.org/toolchain@v0.0.1-go1.24.2.linux-amd64/bin:$PATH GOFLAGS=-mod=mod GOPROXY=off go test -vet=off -count=1 ./...",
            "source_commits": [],
            "add_only": True,
        },
        "engines": [
            {"name": "ENUM", "path": "/verif/mc/core", "serves_properties": sorted(CHECKS), "kind_free_text": "stateless choice-sequence explorer (DFS over recorded choice points, deviation bound, sharded over 16 worker processes), fresh-process workers, evidence/known-finding/replay bookkeeping"},
            {"name": "PIPE", "path": "/verif/mc/pipe", "serves_properties": [k for k in sorted(CHECKS) if "PIPE" in CHECKS[k]["engine"]], "kind_free_text": "pipeline driver: synthetic modules in private scratch dirs, gengo.NewContext+Execute through the public API with data-scripted recording generators (faults, Defer, ErrSkip/ErrIgnore, stateful), tree snapshots; child-process mode for runs that die"},
        ],
        "checks": checks,
        "notes": "All checks are bounded-exhaustive explorations of the real implementation (model-checking family). Defects found are repaired by fix: commits in /repo or listed in /verif/known_findings.json.",
        "not_applicable": na,
    }
    json.dump(m, open(os.path.join(ROOT, "MANIFEST.json"), "w"), indent=1)
    print("claimed:", len(checks), "unclaimed:", len(na))

main()
