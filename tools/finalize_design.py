#!/usr/bin/env python3
"""Copies the running log (NOTES-log.md) into DESIGN.md §10."""
d = open('/verif/DESIGN.md').read()
log = open('/verif/NOTES-log.md').read().split('\n', 1)[1].strip()
head = "## 10. Log of false alarms and corrections"
i = d.index(head)
d = d[:i] + head + "\n\nKept while building; each entry says what the check wrongly demanded (or how the harness misrepresented the code) and what was changed. No property was edited, no correct check was loosened.\n\n" + log + "\n"
open('/verif/DESIGN.md', 'w').write(d)
print("ok")
