#!/usr/bin/env python3
import json, jsonschema, glob, sys
ms = json.load(open('/root/.vp/MANIFEST.schema.json')); es = json.load(open('/root/.vp/EVIDENCE.schema.json'))
m = json.load(open('/verif/MANIFEST.json')); jsonschema.validate(m, ms)
bad = 0
for c in m['checks']:
    try:
        jsonschema.validate(json.load(open(c['evidence_file'])), es)
    except Exception as e:
        bad += 1; print('EVIDENCE', c['property_id'], str(e)[:300])
print('manifest ok; checks', len(m['checks']), 'bad evidence', bad)
sys.exit(1 if bad else 0)
