# sourced by every wrapper: pinned toolchain + offline flags
export VERIF_ROOT="${VERIF_ROOT:-/verif}"
export REPO="${REPO:-/repo}"
GO124=/root/go/pkg/mod/golang.org/toolchain@v0.0.1-go1.24.2.linux-amd64
if [ ! -x "$GO124/bin/go" ]; then
  GO124="$(cd "$REPO" && GOFLAGS=-mod=mod GOPROXY=off go env GOROOT)"
fi
export PATH="$GO124/bin:$PATH"
export GOROOT="$GO124"
export GOTOOLCHAIN=local GOFLAGS=-mod=mod GOPROXY=off GONOSUMDB='*' GONOSUMCHECK=1 GONOSUMDB GOFLAGS
export GOCACHE="${GOCACHE:-$HOME/.cache/go-build}"
