// seamgen writes the build overlays used by the seam-based checks, from /repo's
// current working tree:
//
//	sched: "sync" imports of pkg/inflector/... replaced by the zzsync shim
//	seam:  every `range` over a map in non-test library code rewritten to range zzseam.Map(site, m)
//
// usage: seamgen <repo> <outdir>   (writes <outdir>/sched.json, <outdir>/seam.json, <outdir>/seam-sites.json)
package main

import (
	"encoding/json"
	"fmt"
	"go/ast"
	"go/parser"
	"go/token"
	"go/types"
	"os"
	"path/filepath"
	"sort"
	"strings"

	"golang.org/x/tools/go/packages"
)

type overlay struct {
	Replace map[string]string
}

func must(err error) {
	if err != nil {
		fmt.Fprintln(os.Stderr, "seamgen:", err)
		os.Exit(2)
	}
}

func main() {
	repo, out := os.Args[1], os.Args[2]
	self, _ := os.Executable()
	mcDir := os.Getenv("VERIF_MC")
	if mcDir == "" {
		mcDir = filepath.Join(filepath.Dir(filepath.Dir(self)), "mc")
	}
	must(os.MkdirAll(out, 0o755))
	sched(repo, out, mcDir)
	seam(repo, out, mcDir)
}

func write(path string, v any) {
	b, _ := json.MarshalIndent(v, "", " ")
	must(os.WriteFile(path, b, 0o644))
}

func sched(repo, out, mcDir string) {
	ov := overlay{Replace: map[string]string{
		filepath.Join(repo, "pkg/zzsync/zzsync.go"): filepath.Join(mcDir, "overlay/zzsync/zzsync.go"),
	}}
	root := filepath.Join(repo, "pkg/inflector")
	n := 0
	must(filepath.Walk(root, func(p string, info os.FileInfo, err error) error {
		if err != nil || info.IsDir() || !strings.HasSuffix(p, ".go") || strings.HasSuffix(p, "_test.go") {
			return err
		}
		src, err := os.ReadFile(p)
		if err != nil {
			return err
		}
		fset := token.NewFileSet()
		f, err := parser.ParseFile(fset, p, src, parser.ImportsOnly)
		if err != nil {
			return err
		}
		type edit struct {
			from, to int
			text     string
		}
		var edits []edit
		for _, im := range f.Imports {
			if im.Path.Value == `"sync"` {
				name := "sync "
				from := fset.Position(im.Path.Pos()).Offset
				if im.Name != nil {
					name = ""
				}
				edits = append(edits, edit{from, fset.Position(im.Path.End()).Offset, name + `"github.com/octohelm/gengo/pkg/zzsync"`})
			}
		}
		if len(edits) == 0 {
			return nil
		}
		sort.Slice(edits, func(i, j int) bool { return edits[i].from > edits[j].from })
		s := string(src)
		for _, e := range edits {
			s = s[:e.from] + e.text + s[e.to:]
		}
		dst := filepath.Join(out, "sched", strings.ReplaceAll(strings.TrimPrefix(p, repo+"/"), "/", "__"))
		must(os.MkdirAll(filepath.Dir(dst), 0o755))
		must(os.WriteFile(dst, []byte(s), 0o644))
		ov.Replace[p] = dst
		n++
		return nil
	}))
	// n == 0: nothing under pkg/inflector uses package sync (any more); the overlay then only adds the
	// virtual package and the check reports that the interleaving search is vacuous
	write(filepath.Join(out, "sched.json"), ov)
}

func seam(repo, out, mcDir string) {
	cfg := &packages.Config{
		Dir:  repo,
		Mode: packages.NeedName | packages.NeedFiles | packages.NeedCompiledGoFiles | packages.NeedSyntax | packages.NeedTypes | packages.NeedTypesInfo | packages.NeedImports,
	}
	pkgs, err := packages.Load(cfg, "./pkg/...", "./devpkg/...")
	must(err)
	ov := overlay{Replace: map[string]string{
		filepath.Join(repo, "pkg/zzseam/zzseam.go"): filepath.Join(mcDir, "overlay/zzseam/zzseam.go"),
	}}
	var sites []string
	for _, p := range pkgs {
		if len(p.Errors) > 0 {
			must(fmt.Errorf("package %s has errors: %v", p.PkgPath, p.Errors))
		}
		if strings.Contains(p.PkgPath, "__generators__") {
			continue
		}
		for i, f := range p.Syntax {
			file := p.CompiledGoFiles[i]
			type edit struct {
				off  int
				text string
			}
			var edits []edit
			var cuts [][2]int // byte ranges to delete
			ast.Inspect(f, func(n ast.Node) bool {
				// m.Range of a sync.Map (ranged over or called): its iteration order is unspecified too
				if sel, ok := n.(*ast.SelectorExpr); ok && sel.Sel.Name == "Range" {
					if t := p.TypesInfo.TypeOf(sel.X); t != nil && (t.String() == "sync.Map" || t.String() == "*sync.Map") {
						pos := p.Fset.Position(sel.Pos())
						site := fmt.Sprintf("%s:%d", strings.TrimPrefix(file, repo+"/"), pos.Line)
						sites = append(sites, site)
						amp := "&"
						if t.String() == "*sync.Map" {
							amp = ""
						}
						// X.Range  ->  zzseam.SyncRange("site", &(X))
						edits = append(edits, edit{pos.Offset, fmt.Sprintf("zzseam.SyncRange(%q, %s(", site, amp)})
						cuts = append(cuts, [2]int{p.Fset.Position(sel.X.End()).Offset, p.Fset.Position(sel.End()).Offset})
						edits = append(edits, edit{p.Fset.Position(sel.End()).Offset, "))"})
					}
					return true
				}
				if call, ok := n.(*ast.CallExpr); ok {
					// v.MapKeys() / v.MapRange() / v.Seq2() on a reflect.Value: reflect's map iteration is random too
					if sel, ok := call.Fun.(*ast.SelectorExpr); ok && len(call.Args) == 0 && (sel.Sel.Name == "MapKeys" || sel.Sel.Name == "MapRange" || sel.Sel.Name == "Seq2") {
						if t := p.TypesInfo.TypeOf(sel.X); t != nil && t.String() == "reflect.Value" {
							pos := p.Fset.Position(call.Pos())
							site := fmt.Sprintf("%s:%d", strings.TrimPrefix(file, repo+"/"), pos.Line)
							sites = append(sites, site)
							// v.MapKeys()  ->  zzseam.MapKeys("site", v)
							edits = append(edits, edit{pos.Offset, fmt.Sprintf("zzseam.%s(%q, ", sel.Sel.Name, site)})
							xEnd := p.Fset.Position(sel.X.End()).Offset
							callEnd := p.Fset.Position(call.End()).Offset
							cuts = append(cuts, [2]int{xEnd, callEnd - 1}) // drop ".MapKeys(" keep ")"
						}
					}
					return true
				}
				rs, ok := n.(*ast.RangeStmt)
				if !ok {
					return true
				}
				t := p.TypesInfo.TypeOf(rs.X)
				if t == nil {
					return true
				}
				if _, ok := t.Underlying().(*types.Map); !ok {
					return true
				}
				pos := p.Fset.Position(rs.X.Pos())
				site := fmt.Sprintf("%s:%d", strings.TrimPrefix(file, repo+"/"), pos.Line)
				sites = append(sites, site)
				edits = append(edits, edit{pos.Offset, fmt.Sprintf("zzseam.Map(%q, ", site)})
				edits = append(edits, edit{p.Fset.Position(rs.X.End()).Offset, ")"})
				return true
			})
			if len(edits) == 0 {
				continue
			}
			src, err := os.ReadFile(file)
			must(err)
			// import on the line of the package clause, so that line numbers do not move
			edits = append(edits, edit{p.Fset.Position(f.Name.End()).Offset, `; import zzseam "github.com/octohelm/gengo/pkg/zzseam"`})
			// deletions are expressed as edits too: apply everything from the end of the file backwards
			type op struct {
				off, del int
				text     string
			}
			var ops []op
			for _, e := range edits {
				ops = append(ops, op{e.off, 0, e.text})
			}
			for _, c := range cuts {
				ops = append(ops, op{c[0], c[1] - c[0], ""})
			}
			sort.SliceStable(ops, func(i, j int) bool { return ops[i].off > ops[j].off })
			s := string(src)
			for _, o := range ops {
				s = s[:o.off] + o.text + s[o.off+o.del:]
			}
			dst := filepath.Join(out, "seam", strings.ReplaceAll(strings.TrimPrefix(file, repo+"/"), "/", "__"))
			must(os.MkdirAll(filepath.Dir(dst), 0o755))
			must(os.WriteFile(dst, []byte(s), 0o644))
			ov.Replace[file] = dst
		}
	}
	sort.Strings(sites)
	if len(sites) == 0 {
		must(fmt.Errorf("no range-over-map site found"))
	}
	write(filepath.Join(out, "seam.json"), ov)
	write(filepath.Join(out, "seam-sites.json"), sites)
}
