//go:build sched || racepass

package main

import _ "verif/mc/props/c20"
