package main

import (
	"os"

	"verif/mc/core"
	_ "verif/mc/props/c01"
	_ "verif/mc/props/c02"
	_ "verif/mc/props/c03"
	_ "verif/mc/props/c04"
	_ "verif/mc/props/c05"
	_ "verif/mc/props/c06"
	_ "verif/mc/props/c07"
	_ "verif/mc/props/c08"
	_ "verif/mc/props/c09"
	_ "verif/mc/props/c10"
	_ "verif/mc/props/c11"
	_ "verif/mc/props/c12"
	_ "verif/mc/props/c13"
	_ "verif/mc/props/c14"
	_ "verif/mc/props/c15"
	_ "verif/mc/props/c16"
	_ "verif/mc/props/c17"
	_ "verif/mc/props/c18"
	_ "verif/mc/props/c19"
)

func main() { os.Exit(core.Main(os.Args[1:])) }
