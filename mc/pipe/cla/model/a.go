package model

// A lives in a package whose last segment clashes with clb/model.
type A struct{ X int }
