package model

// A lives in a package whose last segment clashes with clb/model.
type A struct{ X int }

// Item has the same package name AND type name as the Item of the other model package.
type Item struct{ N int }
