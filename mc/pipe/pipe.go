// Package pipe drives the real gengo pipeline (gengo.NewContext + Execute,
// public API only) over synthetic modules with scripted, data-described
// generators, and snapshots the module tree before and after.
package pipe

import (
	"context"
	"crypto/sha256"
	"encoding/hex"
	"encoding/json"
	"errors"
	"fmt"
	"go/types"
	"io"
	"io/fs"
	"os"
	"os/exec"
	"path/filepath"
	"runtime"
	"slices"
	"sort"
	"strings"
	"sync"
	"syscall"
	"time"

	_ "github.com/octohelm/gengo/devpkg/deepcopygen"
	_ "github.com/octohelm/gengo/devpkg/defaultergen"
	_ "github.com/octohelm/gengo/devpkg/partialstruct"
	_ "github.com/octohelm/gengo/devpkg/runtimedocgen"
	"github.com/octohelm/gengo/pkg/gengo"
	"github.com/octohelm/gengo/pkg/gengo/snippet"
	"verif/mc/core"
	clamodel "verif/mc/pipe/cla/model"
	clbmodel "verif/mc/pipe/clb/model"
)

// ---------------------------------------------------------------- trees

// Tree maps slash-separated relative paths to file contents. Symlinks are
// stored as "\x00symlink:" + target.
type Tree map[string]string

const symlinkPrefix = "\x00symlink:"

func Symlink(target string) string { return symlinkPrefix + target }

func WriteTree(dir string, t Tree) error {
	for rel, content := range t {
		p := filepath.Join(dir, filepath.FromSlash(rel))
		if err := os.MkdirAll(filepath.Dir(p), 0o755); err != nil {
			return err
		}
		if strings.HasPrefix(content, symlinkPrefix) {
			_ = os.Remove(p)
			if err := os.Symlink(strings.TrimPrefix(content, symlinkPrefix), p); err != nil {
				return err
			}
			continue
		}
		if err := os.WriteFile(p, []byte(content), 0o644); err != nil {
			return err
		}
	}
	return nil
}

func ReadTree(dir string) (Tree, error) {
	t := Tree{}
	err := filepath.WalkDir(dir, func(p string, d fs.DirEntry, err error) error {
		if err != nil {
			return err
		}
		if d.IsDir() {
			return nil
		}
		rel, _ := filepath.Rel(dir, p)
		rel = filepath.ToSlash(rel)
		if d.Type()&fs.ModeSymlink != 0 {
			target, _ := os.Readlink(p)
			t[rel] = symlinkPrefix + target
			return nil
		}
		b, err := os.ReadFile(p)
		if err != nil {
			return err
		}
		t[rel] = string(b)
		return nil
	})
	return t, err
}

func (t Tree) Clone() Tree {
	c := make(Tree, len(t))
	for k, v := range t {
		c[k] = v
	}
	return c
}

func (t Tree) Hash() string {
	keys := make([]string, 0, len(t))
	for k := range t {
		keys = append(keys, k)
	}
	sort.Strings(keys)
	h := sha256.New()
	for _, k := range keys {
		fmt.Fprintf(h, "%d:%s%d:%s", len(k), k, len(t[k]), t[k])
	}
	return hex.EncodeToString(h.Sum(nil))[:16]
}

// Diff lists created / changed / deleted paths going from a to b.
func Diff(a, b Tree) (created, changed, deleted []string) {
	for k, v := range b {
		if o, ok := a[k]; !ok {
			created = append(created, k)
		} else if o != v {
			changed = append(changed, k)
		}
	}
	for k := range a {
		if _, ok := b[k]; !ok {
			deleted = append(deleted, k)
		}
	}
	sort.Strings(created)
	sort.Strings(changed)
	sort.Strings(deleted)
	return
}

func GoMod(path, goVersion string) string {
	return "module " + path + "\n\ngo " + goVersion + "\n"
}

// TempDir creates a private scratch directory (removed by the caller).
func TempDir(tag string) string {
	base := os.Getenv("VERIF_SCRATCH")
	if base == "" {
		if st, err := os.Stat("/dev/shm"); err == nil && st.IsDir() {
			base = "/dev/shm"
		}
	}
	d, err := os.MkdirTemp(base, "gvf-"+tag+"-")
	if err != nil {
		panic(err)
	}
	d, _ = filepath.EvalSymlinks(d)
	return d
}

// ---------------------------------------------------------------- scripts

// Action describes what a scripted generator does in one callback.
type Action struct {
	Render  string   `json:"render,omitempty"`  // text rendered through Context.Render; $T = type name, $G = generator name, $P = package name
	Imports []string `json:"imports,omitempty"` // import paths referenced through snippet.PkgExpose (rendered as `var _ <name>.X`)
	Ret     string   `json:"ret,omitempty"`     // "", skip, ignore, wrapskip, wrapignore, error, panic, goexit, kill, exit
	Defers  []Action `json:"defers,omitempty"`  // callbacks registered with Context.Defer (their Ret: "", error, panic, kill); a callback's own Defers are registered from INSIDE the callback
	Label   string   `json:"label,omitempty"`   // copied into the log event of a Defer callback
	// Parts: texts handed to the writer by the route Route: 0 one Block of the concatenation, 1 one Render
	// call per part, 2 ONE RenderT call with every part as a template argument, 3 ONE Render call of a
	// Snippets list, 4 ONE Render call of Sprintf("%v%v...", parts as snippets)
	Parts []string `json:"parts,omitempty"`
	Route int      `json:"route,omitempty"`
	// ChainImports: import paths referenced only at the ROOT of a longer selector chain (`var _ = pkg.V.Field.Sub`,
	// `pkg.F().M()`), never as a plain pkg.Name
	ChainImports []string `json:"chain_imports,omitempty"`
	// SharedExpose: render a reference through ONE package-level PkgExpose snippet value that every generator,
	// package and run of this process shares (`var errorsNew = snippet.PkgExpose("errors", "New")` style)
	SharedExpose bool `json:"shared_pkg_expose_value,omitempty"`
	// DocOfFieldTypes: ask Context.Doc about the named type of every field of the struct (whatever package
	// it lives in, the way runtimedoc / partialstruct style generators do) and render what was answered
	DocOfFieldTypes bool `json:"doc_of_field_types,omitempty"`
	// DocOfFields: ask Context.Doc about every FIELD of the struct (as runtimedoc does) and render the answer
	DocOfFields bool `json:"doc_of_fields,omitempty"`
	// ImportsInOneTemplateFirst: before anything else, ONE RenderT call whose named arguments refer to all of
	// Imports and whose placeholders appear in the REVERSE order of the argument names (what decides which of
	// two clashing packages gets the short name is the order of the placeholders in the text)
	ImportsInOneTemplateFirst bool `json:"imports_in_one_template_first,omitempty"`
	// LocateSelf: ask Context.LocateInPackage about the position of the type and of every field type declared
	// in a package of the module, and render the answers as comments
	LocateSelf bool `json:"locate_self,omitempty"`
	// DocOfSelf: ask Context.Doc about the type itself and render tags and doc lines as a comment
	DocOfSelf bool `json:"doc_of_self,omitempty"`
	// AskDocOfFieldTypes: like DocOfFieldTypes, but the answers are thrown away (nothing is rendered)
	AskDocOfFieldTypes bool `json:"ask_doc_of_field_types,omitempty"`
	// FieldTypeIDs: render the type of every field of the struct through snippet.ID (`var _ <type>`), the way
	// generators that re-declare or copy fields do
	FieldTypeIDs bool `json:"field_type_ids,omitempty"`
	// MethodsOfFieldTypes: ask Package.MethodsOf (all, then value receivers only) about the type itself and about the
	// named type of every field, and render the method names (sorted) as comments
	MethodsOfFieldTypes bool `json:"methods_of_field_types,omitempty"`
	// NestedRun: from inside this callback, start ANOTHER gengo run (its own NewContext + Execute with one recording
	// generator that is not one of the scripted ones) over these entrypoints, e.g. "./nested/..." (a generator that
	// drives a sub-generation); its GenerateType calls are logged as events of kind "nested"
	NestedRun []string `json:"nested_run,omitempty"`
	// Recovered: text rendered through a template that ends in an unbound name: the render panics after it
	// yielded this text, and the generator recovers from the panic and carries on (a legal thing to do)
	Recovered string `json:"render_that_panics_and_is_recovered,omitempty"`
}

// GenScript scripts one generator, identified by its fixed name.
type GenScript struct {
	Name     string            `json:"name"`
	Default  Action            `json:"default"`
	ByType   map[string]Action `json:"by_type,omitempty"` // key: <pkgpath>.<TypeName>
	ByCall   map[int]Action    `json:"by_call,omitempty"` // key: index of the GenerateType call of this generator in this run
	Stateful bool              `json:"stateful,omitempty"`
	// QuietPkgs: packages in which the stateful generator records its state (seen set, counter) but
	// renders nothing and returns ErrSkip
	QuietPkgs []string `json:"quiet_pkgs,omitempty"`
	Alias     *Action  `json:"alias,omitempty"` // behaviour of GenerateAliasType (nil: render nothing)
	// AliasByType: behaviour of GenerateAliasType for one alias declaration, key <pkgpath>.<AliasName> (wins over Alias)
	AliasByType map[string]Action `json:"alias_by_type,omitempty"`
}

type Event struct {
	Kind       string `json:"kind"` // type | alias | defer
	Gen        string `json:"gen"`
	Pkg        string `json:"pkg"`
	Type       string `json:"type,omitempty"`
	N          int    `json:"n"`    // call index within this generator and run
	Inst       int    `json:"inst"` // generator instance id
	Label      string `json:"label,omitempty"`
	FileExists bool   `json:"file_exists"`
	FileHash   string `json:"file_hash,omitempty"`
}

func (e Event) String() string {
	return fmt.Sprintf("%s:%s:%s.%s", e.Kind, e.Gen, e.Pkg, e.Type)
}

var (
	mu       sync.Mutex
	scripts  = map[string]*GenScript{}
	calls    = map[string]int{}
	log      []Event
	base     = "zz_generated"
	instSeq  int
	helpers  = map[string]bool{}
	ErrFault = errors.New("injected fault")
)

type inst struct {
	id      int
	seen    map[string]bool
	helper  bool
	counter int
	// state touched by the alias callback
	aliases     int
	aliasHelper bool
}

func fileState(c gengo.Context, gen string) (bool, string) {
	p := c.Package("")
	if p == nil {
		return false, ""
	}
	fn := filepath.Join(p.SourceDir(), base+"."+gen+".go")
	b, err := os.ReadFile(fn)
	if err != nil {
		return false, ""
	}
	h := sha256.Sum256(b)
	return true, hex.EncodeToString(h[:8])
}

func subst(s, typ, gen, pkg string) string {
	return strings.NewReplacer("$T", typ, "$G", gen, "$P", pkg).Replace(s)
}

func (in *inst) perform(c gengo.Context, gen string, a Action, typ string) error {
	pkgName := ""
	if p := c.Package(""); p != nil {
		pkgName = p.Pkg().Name()
	}
	if a.ImportsInOneTemplateFirst && len(a.Imports) > 0 {
		format := ""
		var args []snippet.TArg
		for i, imp := range a.Imports {
			format = fmt.Sprintf("var _all%d_%s_%s @arg%d\n", i, typ, gen, i) + format
			args = append(args, snippet.Arg(fmt.Sprintf("arg%d", i), snippet.PkgExpose(subst(imp, strings.ToLower(typ), gen, pkgName), "X")))
		}
		c.RenderT(format, args...)
	}
	for i, imp := range a.Imports {
		// (the call also binds an argument NO placeholder uses and which refers to a package of its own: a
		// template renders what its format mentions, nothing else)
		c.RenderT("var _"+fmt.Sprint(i)+"_"+typ+"_"+gen+" @x\n", snippet.Arg("x", snippet.PkgExpose(subst(imp, strings.ToLower(typ), gen, pkgName), "X")),
			snippet.Arg("unusedArgument", snippet.PkgExpose("only.io/unused/argument", "X")))
	}
	if a.SharedExpose {
		c.RenderT("var _s_"+typ+"_"+gen+" @x\nvar _t_"+typ+"_"+gen+" @y\n", snippet.Arg("x", sharedExposeLib), snippet.Arg("y", sharedExposeLocal))
	}
	for i, imp := range a.ChainImports {
		c.RenderT("var _c"+fmt.Sprint(i)+"_"+typ+"_"+gen+" = @x.Field.Sub\n\nfunc _f"+fmt.Sprint(i)+"_"+typ+"_"+gen+"() { _ = @y().Method().Name }\n",
			snippet.Arg("x", snippet.PkgExpose(subst(imp, strings.ToLower(typ), gen, pkgName), "V")),
			snippet.Arg("y", snippet.PkgExpose(subst(imp, strings.ToLower(typ), gen, pkgName), "F")))
	}
	if a.Render != "" {
		c.Render(snippet.Block(subst(a.Render, typ, gen, pkgName)))
	}
	if len(a.Parts) > 0 {
		var blocks []snippet.Snippet
		for _, p := range a.Parts {
			blocks = append(blocks, snippet.Block(subst(p, typ, gen, pkgName)))
		}
		switch a.Route {
		case 1:
			for _, b := range blocks {
				c.Render(b)
			}
		case 2:
			format := ""
			var args []snippet.TArg
			for i, b := range blocks {
				format += fmt.Sprintf("@part%d", i)
				args = append(args, snippet.Arg(fmt.Sprintf("part%d", i), b))
			}
			c.RenderT(format, args...)
		case 3:
			c.Render(snippet.Snippets(slices.Values(blocks)))
		case 4:
			var args []any
			for _, b := range blocks {
				args = append(args, b)
			}
			c.Render(snippet.Sprintf(strings.Repeat("%v", len(blocks)), args...))
		default:
			c.Render(snippet.Block(subst(strings.Join(a.Parts, ""), typ, gen, pkgName)))
		}
	}
	if a.Recovered != "" {
		func() {
			defer func() {
				if recover() == nil {
					panic("harness: the template with an unbound name did not panic")
				}
			}()
			c.RenderT(subst(a.Recovered, typ, gen, pkgName)+"@unboundName\n", snippet.Arg("other", snippet.Block("")))
		}()
	}
	for _, d := range a.Defers {
		d := d
		c.Defer(func(c gengo.Context) error {
			mu.Lock()
			ex, h := fileState(c, gen)
			log = append(log, Event{Kind: "defer", Gen: gen, Pkg: c.Package("").Pkg().Path(), Type: typ, Inst: in.id, FileExists: ex, FileHash: h, Label: d.Label})
			mu.Unlock()
			return in.perform(c, gen, d, typ)
		})
	}
	switch a.Ret {
	case "":
		return nil
	case "skip":
		return gengo.ErrSkip
	case "ignore":
		return gengo.ErrIgnore
	case "wrapskip":
		return fmt.Errorf("wrapped: %w", gengo.ErrSkip)
	case "wrapignore":
		return fmt.Errorf("wrapped: %w", gengo.ErrIgnore)
	case "error":
		return ErrFault
	case "panic":
		panic("injected panic")
	case "goexit":
		runtime.Goexit()
	case "kill":
		_ = syscall.Kill(os.Getpid(), syscall.SIGKILL)
		select {}
	case "exit":
		os.Exit(3)
	}
	return fmt.Errorf("unknown ret %q", a.Ret)
}

func (in *inst) generate(gen string, c gengo.Context, named *types.Named) error {
	mu.Lock()
	if in.id == 0 {
		instSeq++
		in.id = instSeq
	}
	s := scripts[gen]
	n := calls[gen]
	calls[gen]++
	pkg := named.Obj().Pkg().Path()
	typ := named.Obj().Name()
	ex, h := fileState(c, gen)
	log = append(log, Event{Kind: "type", Gen: gen, Pkg: pkg, Type: typ, N: n, Inst: in.id, FileExists: ex, FileHash: h})
	mu.Unlock()
	if s == nil {
		return nil
	}
	a := s.Default
	if x, ok := s.ByType[pkg+"."+typ]; ok {
		a = x
	}
	if x, ok := s.ByCall[n]; ok {
		a = x
	}
	if s.Stateful {
		// the classic stateful generator: an "already processed" set, a "helper
		// emitted" flag and a running counter, all rendered into the output
		if in.seen == nil {
			in.seen = map[string]bool{}
		}
		for _, qp := range s.QuietPkgs {
			if qp == pkg {
				in.seen[typ] = true
				in.counter++
				return gengo.ErrSkip
			}
		}
		if !in.seen[typ] {
			in.seen[typ] = true
			in.counter++
			if !in.helper {
				in.helper = true
				c.Render(snippet.Block("func helper_" + gen + "() {}\n"))
			}
			c.Render(snippet.Block(fmt.Sprintf("const N_%s_%s = %d // seen=%d\n", typ, gen, in.counter, len(in.seen))))
		}
	}
	if a.FieldTypeIDs && named.TypeParams().Len() == 0 { // (fields of generic declarations mention free type parameters: not closed types)
		if st, ok := named.Underlying().(*types.Struct); ok {
			for i := 0; i < st.NumFields(); i++ {
				c.RenderT(fmt.Sprintf("var _ft%d_%s_%s @t\n", i, typ, gen), snippet.IDArg("t", st.Field(i).Type()))
			}
		}
	}
	if len(a.NestedRun) > 0 {
		ex, err := gengo.NewContext(&gengo.GeneratorArgs{Entrypoint: a.NestedRun, OutputFileBaseName: "zz_nested", Globals: map[string][]string{"gengo:nestedrec": {"true"}}})
		if err != nil {
			return fmt.Errorf("nested run: %w", err)
		}
		if err := ex.Execute(context.Background(), &nestedRec{}); err != nil {
			return fmt.Errorf("nested run: %w", err)
		}
	}
	if a.MethodsOfFieldTypes {
		ask := func(n *types.Named) {
			if n.Obj().Pkg() == nil {
				return
			}
			p := c.Package(n.Obj().Pkg().Path())
			if p == nil {
				return
			}
			names := func(fs []*types.Func) string {
				var out []string
				for _, f := range fs {
					out = append(out, f.Name())
				}
				sort.Strings(out)
				return strings.Join(out, ",")
			}
			// (all methods first: whatever the value-receiver question leaves behind shows in the NEXT package that asks)
			all := names(p.MethodsOf(n, true))
			v := names(p.MethodsOf(n, false))
			c.Render(snippet.Block(fmt.Sprintf("// METHODS of %s.%s: value receivers [%s], all [%s]\n", n.Obj().Pkg().Path(), n.Obj().Name(), v, all)))
		}
		ask(named)
		if st, ok := named.Underlying().(*types.Struct); ok {
			for i := 0; i < st.NumFields(); i++ {
				ft := st.Field(i).Type()
				if pt, ok := ft.(*types.Pointer); ok {
					ft = pt.Elem()
				}
				if fn, ok := ft.(*types.Named); ok {
					ask(fn)
				}
			}
		}
	}
	if a.LocateSelf {
		where := func(o types.Object) string {
			if lp := c.LocateInPackage(o.Pos()); lp != nil {
				return lp.Pkg().Path()
			}
			return "<nil>"
		}
		c.Render(snippet.Block(fmt.Sprintf("// LOCATED %s.%s in %s\n", pkg, typ, where(named.Obj()))))
		if st, ok := named.Underlying().(*types.Struct); ok {
			for i := 0; i < st.NumFields(); i++ {
				ft := st.Field(i).Type()
				if p, ok := ft.(*types.Pointer); ok {
					ft = p.Elem()
				}
				if fn, ok := ft.(*types.Named); ok && fn.Obj().Pkg() != nil && fn.Obj().Pos().IsValid() {
					c.Render(snippet.Block(fmt.Sprintf("// LOCATED field type %s.%s in %s\n", fn.Obj().Pkg().Path(), fn.Obj().Name(), where(fn.Obj()))))
				}
			}
		}
	}
	if a.DocOfSelf {
		tags, doc := c.Doc(named.Obj())
		var ks []string
		for k, v := range tags {
			ks = append(ks, fmt.Sprintf("%s=%q", k, v))
		}
		sort.Strings(ks)
		c.Render(snippet.Block(fmt.Sprintf("// DOC-OF-SELF %s.%s tags {%s} doc %q\n", pkg, typ, strings.Join(ks, " "), doc)))
	}
	if a.DocOfFields {
		if st, ok := named.Underlying().(*types.Struct); ok {
			for i := 0; i < st.NumFields(); i++ {
				_, doc := c.Doc(st.Field(i))
				c.Render(snippet.Block(fmt.Sprintf("// %s.%s: field %s is documented by %q\n", pkg, typ, st.Field(i).Name(), doc)))
			}
		}
	}
	if a.DocOfFieldTypes || a.AskDocOfFieldTypes {
		if st, ok := named.Underlying().(*types.Struct); ok {
			for i := 0; i < st.NumFields(); i++ {
				ft := st.Field(i).Type()
				if p, ok := ft.(*types.Pointer); ok {
					ft = p.Elem()
				}
				fn, ok := ft.(*types.Named)
				if !ok || fn.Obj().Pkg() == nil {
					continue
				}
				tags, doc := c.Doc(fn.Obj())
				if !a.DocOfFieldTypes {
					continue
				}
				var ks []string
				for k, v := range tags {
					ks = append(ks, k+"="+strings.Join(v, ","))
				}
				sort.Strings(ks)
				c.Render(snippet.Block(fmt.Sprintf("// %s.%s: field %s of type %s.%s has tags [%s] and %d doc lines\n", pkg, typ, st.Field(i).Name(), fn.Obj().Pkg().Path(), fn.Obj().Name(), strings.Join(ks, "; "), len(doc))))
			}
		}
	}
	return in.perform(c, gen, a, typ)
}

func (in *inst) alias(gen string, c gengo.Context, al *types.Alias) error {
	mu.Lock()
	if in.id == 0 {
		instSeq++
		in.id = instSeq
	}
	s := scripts[gen]
	pkg := al.Obj().Pkg().Path()
	typ := al.Obj().Name()
	log = append(log, Event{Kind: "alias", Gen: gen, Pkg: pkg, Type: typ, Inst: in.id})
	mu.Unlock()
	if s == nil {
		return nil
	}
	if s.Stateful {
		// the same per-instance state as for defined types, seen from the alias callback: a helper emitted
		// once per instance and a running counter
		quiet := false
		for _, qp := range s.QuietPkgs {
			quiet = quiet || qp == pkg
		}
		in.aliases++
		if !quiet {
			if !in.aliasHelper {
				in.aliasHelper = true
				c.Render(snippet.Block("func aliasHelper_" + gen + "() {}\n"))
			}
			c.Render(snippet.Block(fmt.Sprintf("const NA_%s_%s = %d\n", typ, gen, in.aliases)))
		}
	}
	if a, ok := s.AliasByType[pkg+"."+typ]; ok {
		return in.perform(c, gen, a, typ)
	}
	if s.Alias == nil {
		return nil
	}
	return in.perform(c, gen, *s.Alias, typ)
}

// shared snippet VALUES (never rebuilt): a reference to a foreign package, and one to the package x.io/test/p
// (which is the generated package itself in one place and a foreign one everywhere else)
var (
	sharedExposeLib   = snippet.PkgExpose("x.io/shared/lib", "Name")
	sharedExposeLocal = snippet.PkgExpose("x.io/test/p", "Z")
)

// Twins holds types that share package name and type name across two packages.
type Twins struct {
	P clamodel.Item
	Q clbmodel.Item
	R []clamodel.Item
	S []clbmodel.Item
	T *clamodel.Item
	U *clbmodel.Item
}

// TwinsValue has as many clamodel.Item as clbmodel.Item references.
func TwinsValue() Twins {
	return Twins{P: clamodel.Item{N: 1}, Q: clbmodel.Item{N: 2}, R: []clamodel.Item{{N: 3}}, S: []clbmodel.Item{{N: 4}}, T: &clamodel.Item{N: 5}, U: &clbmodel.Item{N: 6}}
}

// Holder is rendered by the vm generator.
type Holder struct {
	PA *clamodel.A
	PB *clbmodel.B
}

// Generator types: names are constants because gengo instantiates a zero
// value of the type for every package when there is no custom New.
type (
	G  struct{ inst } // "g"
	GX struct{ inst } // "gx": "g" is a prefix of it
	G1 struct{ inst }
	G2 struct{ inst }
	// N1 has a custom New
	N1 struct{ inst }
	// N2 has a custom New that derives the instance from its receiver (to carry configuration), the way
	// real generators do: `n := *g; return &n`
	N2 struct {
		inst
		Config  string
		emitted bool
		count   int
	}
	// P1 is registered with pre-allocated reference state and has no custom New
	P1 struct {
		inst
		Pre map[string]bool
	}
	// NA has no GenerateAliasType
	NA struct{ in inst }
	// VM renders map value literals and multi-argument templates
	VM struct{ in inst }
)

func (*G) Name() string  { return "g" }
func (*GX) Name() string { return "gx" }
func (*G1) Name() string { return "g1" }
func (*G2) Name() string { return "g2" }
func (*N1) Name() string { return "n1" }
func (*N2) Name() string { return "n2" }
func (*P1) Name() string { return "p1" }
func (*NA) Name() string { return "na" }
func (*VM) Name() string { return "vm" }

func (g *VM) GenerateType(c gengo.Context, n *types.Named) error {
	name := n.Obj().Name()
	c.RenderT("var M_@Type = @val\nvar S_@Type = @set\nvar H_@Type = @holders\nvar A_@Type = @a + @b + @c + @d\n", snippet.Args{
		// entries mention types of two packages with a clashing last segment, each entry only one of them
		"holders": snippet.Value(map[string]Holder{
			"k1": {PA: &clamodel.A{X: 1}}, "k2": {PB: &clbmodel.B{Y: 2}}, "k3": {PA: &clamodel.A{X: 3}}, "k0": {PB: &clbmodel.B{Y: 4}},
		}),
		"Type": snippet.Block(name),
		"val":  snippet.Value(map[string]int{"z": 1, "a": 2, "m": 3, "b": 4, "y": 5}),
		"set":  snippet.Value(map[int]bool{3: true, 1: false, 2: true}),
		"a":    snippet.Block("1"), "b": snippet.Block("2"), "c": snippet.Block("3"), "d": snippet.Block("4"),
	})
	return g.in.generate("vm", c, n)
}

func (g *G) GenerateType(c gengo.Context, n *types.Named) error  { return g.generate("g", c, n) }
func (g *GX) GenerateType(c gengo.Context, n *types.Named) error { return g.generate("gx", c, n) }
func (g *G1) GenerateType(c gengo.Context, n *types.Named) error { return g.generate("g1", c, n) }
func (g *G2) GenerateType(c gengo.Context, n *types.Named) error { return g.generate("g2", c, n) }
func (g *N1) GenerateType(c gengo.Context, n *types.Named) error { return g.generate("n1", c, n) }
func (g *NA) GenerateType(c gengo.Context, n *types.Named) error { return g.in.generate("na", c, n) }
func (g *P1) GenerateType(c gengo.Context, n *types.Named) error {
	if g.Pre == nil {
		g.Pre = map[string]bool{}
	}
	// state kept in the pre-allocated map: first type of the package gets the helper
	if len(g.Pre) == 0 {
		c.Render(snippet.Block("func helper_p1() {}\n"))
	}
	g.Pre[n.Obj().Name()] = true
	c.Render(snippet.Block(fmt.Sprintf("const P_%s_p1 = %d\n", n.Obj().Name(), len(g.Pre))))
	return g.generate("p1", c, n)
}

func (g *G) GenerateAliasType(c gengo.Context, a *types.Alias) error  { return g.alias("g", c, a) }
func (g *GX) GenerateAliasType(c gengo.Context, a *types.Alias) error { return g.alias("gx", c, a) }
func (g *G1) GenerateAliasType(c gengo.Context, a *types.Alias) error { return g.alias("g1", c, a) }
func (g *G2) GenerateAliasType(c gengo.Context, a *types.Alias) error { return g.alias("g2", c, a) }
func (g *N1) GenerateAliasType(c gengo.Context, a *types.Alias) error { return g.alias("n1", c, a) }
func (g *P1) GenerateAliasType(c gengo.Context, a *types.Alias) error { return g.alias("p1", c, a) }

func (g *N1) New(c gengo.Context) gengo.Generator { return &N1{} }

func (g *N2) New(c gengo.Context) gengo.Generator { n := *g; return &n }

func (g *N2) GenerateType(c gengo.Context, n *types.Named) error {
	if !g.emitted {
		g.emitted = true
		c.Render(snippet.Block("func helper_n2() string { return \"" + g.Config + "\" }\n"))
	}
	g.count++
	c.Render(snippet.Block(fmt.Sprintf("const Q_%s_n2 = %d\n", n.Obj().Name(), g.count)))
	return g.generate("n2", c, n)
}

func newGen(name string) gengo.Generator {
	switch name {
	case "g":
		return &G{}
	case "gx":
		return &GX{}
	case "g1":
		return &G1{}
	case "g2":
		return &G2{}
	case "n1":
		return &N1{}
	case "n2":
		return &N2{Config: "configured"}
	case "p1":
		return &P1{Pre: map[string]bool{}}
	case "na":
		return &NA{}
	case "vm":
		return &VM{}
	}
	panic("unknown scripted generator " + name)
}

// ---------------------------------------------------------------- runs

// Spec describes one run of the pipeline.
type Spec struct {
	Dir         string              `json:"dir"`
	Entrypoints []string            `json:"entrypoints"`
	All         bool                `json:"all,omitempty"`
	Force       bool                `json:"force,omitempty"`
	Base        string              `json:"base,omitempty"`
	Globals     map[string][]string `json:"globals,omitempty"`
	// Cwd: the working directory of the run, relative to Dir (entrypoints are relative to it); "" = Dir
	Cwd  string      `json:"cwd,omitempty"`
	Gens []GenScript `json:"gens"`
	// Real names registered generators of the repository to append (runtimedoc, deepcopy, partialstruct, defaulter)
	Real []string `json:"real,omitempty"`
	// RealFirst lists the repository's generators BEFORE the scripted ones
	RealFirst bool `json:"real_first,omitempty"`
	// AfterLoad: file operations (paths relative to Dir) applied AFTER NewContext returned and BEFORE Execute starts
	AfterLoad []FileOp `json:"after_load,omitempty"`
	// Again: after Execute returned, apply these file operations and call Execute a SECOND time on the same Executor
	Again *Again `json:"execute_again,omitempty"`
}

type Again struct {
	Before []FileOp `json:"before,omitempty"`
}

// FileOp writes (or removes) one file.
type FileOp struct {
	Path    string `json:"path"`
	Content string `json:"content,omitempty"`
	Remove  bool   `json:"remove,omitempty"`
}

type Outcome struct {
	LoadErr string  `json:"load_err,omitempty"`
	Err     string  `json:"err,omitempty"`
	Panic   string  `json:"panic,omitempty"`
	Log     []Event `json:"log"`
	Stdout  string  `json:"stdout,omitempty"`
	// second Execute on the same Executor (Spec.Again): index of its first log event, its error
	SecondFrom int    `json:"second_from,omitempty"`
	Err2       string `json:"err2,omitempty"`
}

func (o Outcome) OK() bool { return o.LoadErr == "" && o.Err == "" && o.Panic == "" }

// Calls returns the type-callback events as strings "gen:pkg.Type".
func (o Outcome) Calls(kind string) []string {
	var out []string
	for _, e := range o.Log {
		if e.Kind == kind {
			out = append(out, e.Gen+":"+e.Pkg+"."+e.Type)
		}
	}
	return out
}

var execMu sync.Mutex

// Exec runs the pipeline in this process (chdir into the module; gengo's
// stdout chatter is captured).
func Exec(spec Spec) (out Outcome) {
	for attempt := 0; ; attempt++ {
		out = execOnce(spec)
		// the Go build cache was trimmed or moved away under the `go list` that packages.Load runs (another process
		// purging it): an accident of the environment, not an answer of the library - load again
		if attempt < 3 && strings.Contains(out.LoadErr, "from cache") && strings.Contains(out.LoadErr, "cache entry not found") {
			time.Sleep(time.Second)
			continue
		}
		return out
	}
}

func execOnce(spec Spec) (out Outcome) {
	execMu.Lock()
	defer execMu.Unlock()

	mu.Lock()
	scripts = map[string]*GenScript{}
	calls = map[string]int{}
	log = nil
	instSeq = 0
	base = spec.Base
	if base == "" {
		base = "zz_generated"
	}
	var gens []gengo.Generator
	for i := range spec.Gens {
		g := spec.Gens[i]
		scripts[g.Name] = &g
		gens = append(gens, newGen(g.Name))
	}
	mu.Unlock()
	if len(spec.Real) > 0 {
		if spec.RealFirst {
			gens = append(gengo.GetRegisteredGenerators(spec.Real...), gens...)
		} else {
			gens = append(gens, gengo.GetRegisteredGenerators(spec.Real...)...)
		}
	}

	cwd, _ := os.Getwd()
	if err := os.Chdir(filepath.Join(spec.Dir, spec.Cwd)); err != nil {
		out.LoadErr = "chdir: " + err.Error()
		return
	}
	defer os.Chdir(cwd)

	// capture stdout
	realStdout := os.Stdout
	tmp, _ := os.CreateTemp("", "gvf-stdout-")
	if tmp != nil {
		os.Stdout = tmp
	}
	defer func() {
		os.Stdout = realStdout
		if tmp != nil {
			if b, err := os.ReadFile(tmp.Name()); err == nil {
				if len(b) > 4000 {
					b = b[len(b)-4000:]
				}
				out.Stdout = string(b)
			}
			tmp.Close()
			os.Remove(tmp.Name())
		}
		mu.Lock()
		out.Log = append([]Event(nil), log...)
		mu.Unlock()
	}()

	done := make(chan struct{})
	go func() { // own goroutine so that runtime.Goexit in a generator is observable
		defer close(done)
		finished := false
		defer func() {
			if r := recover(); r != nil {
				out.Panic = fmt.Sprint(r)
				return
			}
			if !finished {
				out.Panic = "goexit"
			}
		}()
		ex, err := gengo.NewContext(&gengo.GeneratorArgs{
			Globals:            spec.Globals,
			Entrypoint:         spec.Entrypoints,
			OutputFileBaseName: base,
			All:                spec.All,
			Force:              spec.Force,
		})
		if err != nil {
			out.LoadErr = err.Error()
			finished = true
			return
		}
		applyOps(spec.Dir, spec.AfterLoad)
		if err := ex.Execute(context.Background(), gens...); err != nil {
			out.Err = err.Error()
		}
		if spec.Again != nil && out.Err == "" {
			applyOps(spec.Dir, spec.Again.Before)
			mu.Lock()
			out.SecondFrom = len(log)
			mu.Unlock()
			if err := ex.Execute(context.Background(), gens...); err != nil {
				out.Err2 = err.Error()
			}
		}
		finished = true
	}()
	<-done
	return
}

// nestedRec: the generator of a nested run; records its calls, renders nothing.
type nestedRec struct{}

func (*nestedRec) Name() string { return "nestedrec" }

func (*nestedRec) GenerateType(c gengo.Context, n *types.Named) error {
	mu.Lock()
	log = append(log, Event{Kind: "nested", Gen: "nestedrec", Pkg: n.Obj().Pkg().Path(), Type: n.Obj().Name()})
	mu.Unlock()
	return nil
}

func applyOps(dir string, ops []FileOp) {
	for _, op := range ops {
		f := filepath.Join(dir, op.Path)
		if op.Remove {
			os.Remove(f)
		} else {
			os.MkdirAll(filepath.Dir(f), 0o755)
			os.WriteFile(f, []byte(op.Content), 0o644)
		}
	}
}

// ExecJSON is the body of the child worker: spec on stdin, outcome on stdout.
func ExecJSON(in []byte) ([]byte, error) {
	var spec Spec
	if err := json.Unmarshal(in, &spec); err != nil {
		return nil, err
	}
	o := Exec(spec)
	return json.Marshal(o)
}

// ExecChild runs the spec in a fresh process (needed when the run may die).
// status is the exit status (-1 = killed by a signal, sig says which).
func ExecChild(spec Spec) (o Outcome, status int, sig string, err error) {
	in, _ := json.Marshal(spec)
	stdout, stderr, runErr := core.RunWorker("pipe-exec", in)
	if runErr != nil {
		var ee *exec.ExitError
		if errors.As(runErr, &ee) {
			status = ee.ExitCode()
			if ws, ok := ee.Sys().(syscall.WaitStatus); ok && ws.Signaled() {
				sig = ws.Signal().String()
			}
		} else {
			return o, 0, "", runErr
		}
	}
	if len(stdout) > 0 {
		if e := json.Unmarshal(stdout, &o); e != nil && status == 0 {
			return o, status, sig, fmt.Errorf("child output: %v: %q %q", e, stdout, stderr)
		}
	}
	if status != 0 && o.Panic == "" && sig == "" {
		o.Panic = "child died: " + tail(string(stderr), 600)
	}
	return o, status, sig, nil
}

func tail(s string, n int) string {
	if len(s) > n {
		return s[len(s)-n:]
	}
	return s
}

func init() {
	core.RegisterWorker("pipe-exec", func(args []string) int {
		in, err := io.ReadAll(os.Stdin)
		if err != nil {
			return 2
		}
		realStdout := os.Stdout
		out, err := ExecJSON(in)
		if err != nil {
			fmt.Fprintln(os.Stderr, err)
			return 2
		}
		realStdout.Write(out)
		return 0
	})
}
