package model

// B lives in a package whose last segment clashes with cla/model.
type B struct{ Y int }

// Item has the same package name AND type name as the Item of the other model package.
type Item struct{ N int }
