package model

// B lives in a package whose last segment clashes with cla/model.
type B struct{ Y int }
