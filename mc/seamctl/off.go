//go:build !seam

package seamctl

func Available() bool               { return false }
func Set(def int, p map[string]int) {}
func Touched() map[string]int       { return nil }

const NPolicies = 1
