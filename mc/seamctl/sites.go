package seamctl

import (
	"encoding/json"
	"os"
	"path/filepath"
	"strings"

	"verif/mc/core"
)

// Sites returns the static list of range-over-map sites written by seamgen,
// optionally filtered by a path prefix.
func Sites(prefix string) []string {
	b, err := os.ReadFile(filepath.Join(core.Root(), "mc", ".overlay", "seam-sites.json"))
	if err != nil {
		return nil
	}
	var all []string
	_ = json.Unmarshal(b, &all)
	var out []string
	for _, s := range all {
		if strings.HasPrefix(s, prefix) {
			out = append(out, s)
		}
	}
	return out
}

// Vectors enumerates all policy vectors over the sites with at most maxDev
// deviating sites, each deviating site taking every non-default policy.
func Vectors(sites []string, maxDev int) []map[string]int {
	out := []map[string]int{{}}
	var rec func(start int, cur map[string]int, left int)
	rec = func(start int, cur map[string]int, left int) {
		if left == 0 {
			return
		}
		for i := start; i < len(sites); i++ {
			for p := 1; p < NPolicies; p++ {
				n := map[string]int{}
				for k, v := range cur {
					n[k] = v
				}
				n[sites[i]] = p
				out = append(out, n)
				rec(i+1, n, left-1)
			}
		}
	}
	rec(0, map[string]int{}, maxDev)
	return out
}
