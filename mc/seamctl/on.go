//go:build seam

// Package seamctl controls the map-iteration-order seam (only effective in the
// binary built with the seam overlay and tag).
package seamctl

import "github.com/octohelm/gengo/pkg/zzseam"

func Available() bool               { return true }
func Set(def int, p map[string]int) { zzseam.SetPolicy(def, p) }
func Touched() map[string]int       { return zzseam.Touched() }

const NPolicies = zzseam.NPolicies
