// Package zzseam is the map-iteration-order seam: `range m` over a map is
// rewritten (by cmd/seamgen, through `go build -overlay`) into
// `range zzseam.Map("<file:line>", m)`, which iterates the keys in a canonical
// order transformed by the policy the explorer selected for that site. It
// never exists in /repo.
package zzseam

import (
	"fmt"
	"go/token"
	"iter"
	"sort"
	"sync"
)

// Policies: 0 ascending, 1 descending, 2 rotate left by one, 3 rotate right by one.
const NPolicies = 4

var (
	mu      sync.Mutex
	policy  = map[string]int{}
	deflt   int
	touched = map[string]int{} // site -> max number of keys seen
)

// SetPolicy installs the policy vector (site -> policy) and the default for all other sites.
func SetPolicy(def int, p map[string]int) {
	mu.Lock()
	defer mu.Unlock()
	deflt = def
	policy = map[string]int{}
	for k, v := range p {
		policy[k] = v
	}
	touched = map[string]int{}
}

// Touched reports the sites executed since the last SetPolicy with the largest map size seen.
func Touched() map[string]int {
	mu.Lock()
	defer mu.Unlock()
	out := map[string]int{}
	for k, v := range touched {
		out[k] = v
	}
	return out
}

type poser interface{ Pos() token.Pos }

func keyString(k any) string {
	switch x := k.(type) {
	case string:
		return x
	case poser:
		s := ""
		if st, ok := k.(fmt.Stringer); ok {
			s = st.String()
		}
		return fmt.Sprintf("%012d %s", x.Pos(), s)
	case fmt.Stringer:
		return x.String()
	}
	return fmt.Sprintf("%v", k)
}

func Map[M ~map[K]V, K comparable, V any](site string, m M) iter.Seq2[K, V] {
	return func(yield func(K, V) bool) {
		keys := make([]K, 0, len(m))
		for k := range m {
			keys = append(keys, k)
		}
		strs := make(map[K]string, len(keys))
		for _, k := range keys {
			strs[k] = keyString(k)
		}
		sort.SliceStable(keys, func(i, j int) bool { return strs[keys[i]] < strs[keys[j]] })
		mu.Lock()
		p, ok := policy[site]
		if !ok {
			p = deflt
		}
		if len(keys) > touched[site] {
			touched[site] = len(keys)
		} else if _, seen := touched[site]; !seen {
			touched[site] = len(keys)
		}
		mu.Unlock()
		n := len(keys)
		order := make([]K, 0, n)
		switch p {
		case 1:
			for i := n - 1; i >= 0; i-- {
				order = append(order, keys[i])
			}
		case 2:
			if n > 0 {
				order = append(order, keys[1:]...)
				order = append(order, keys[0])
			}
		case 3:
			if n > 0 {
				order = append(order, keys[n-1])
				order = append(order, keys[:n-1]...)
			}
		default:
			order = keys
		}
		for _, k := range order {
			v, ok := m[k]
			if !ok {
				continue // deleted during iteration
			}
			if !yield(k, v) {
				return
			}
		}
	}
}
