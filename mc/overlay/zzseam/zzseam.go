// Package zzseam is the map-iteration-order seam: `range m` over a map is
// rewritten (by cmd/seamgen, through `go build -overlay`) into
// `range zzseam.Map("<file:line>", m)`, which iterates the keys in a canonical
// order transformed by the policy the explorer selected for that site. It
// never exists in /repo.
package zzseam

import (
	"fmt"
	"go/token"
	"iter"
	"reflect"
	"sort"
	"sync"
)

// Policies: 0 ascending, 1 descending, 2 rotate left by one, 3 rotate right by one.
const NPolicies = 4

var (
	mu      sync.Mutex
	policy  = map[string]int{}
	deflt   int
	touched = map[string]int{} // site -> max number of keys seen
)

// SetPolicy installs the policy vector (site -> policy) and the default for all other sites.
func SetPolicy(def int, p map[string]int) {
	mu.Lock()
	defer mu.Unlock()
	deflt = def
	policy = map[string]int{}
	for k, v := range p {
		policy[k] = v
	}
	touched = map[string]int{}
}

// Touched reports the sites executed since the last SetPolicy with the largest map size seen.
func Touched() map[string]int {
	mu.Lock()
	defer mu.Unlock()
	out := map[string]int{}
	for k, v := range touched {
		out[k] = v
	}
	return out
}

type poser interface{ Pos() token.Pos }

func keyString(k any) string {
	switch x := k.(type) {
	case string:
		return x
	case poser:
		s := ""
		if st, ok := k.(fmt.Stringer); ok {
			s = st.String()
		}
		return fmt.Sprintf("%012d %s", x.Pos(), s)
	case fmt.Stringer:
		return x.String()
	}
	return fmt.Sprintf("%v", k)
}

// sortCanonical orders keys canonically: strings by value, AST / types objects by source position
// (their String() - expensive for types.Object - is only consulted to break ties), everything else by
// its printed form.
func sortCanonical[K comparable](keys []K) {
	if len(keys) < 2 {
		return
	}
	var probe any = keys[0]
	if _, isPoser := probe.(poser); isPoser {
		type ent struct {
			k   K
			pos token.Pos
			s   string
			has bool
		}
		es := make([]ent, len(keys))
		for i, k := range keys {
			es[i] = ent{k: k, pos: any(k).(poser).Pos()}
		}
		str := func(e *ent) string {
			if !e.has {
				e.has = true
				if st, ok := any(e.k).(fmt.Stringer); ok {
					e.s = st.String()
				} else {
					e.s = fmt.Sprintf("%v", e.k)
				}
			}
			return e.s
		}
		sort.SliceStable(es, func(i, j int) bool {
			if es[i].pos != es[j].pos {
				return es[i].pos < es[j].pos
			}
			return str(&es[i]) < str(&es[j])
		})
		for i := range es {
			keys[i] = es[i].k
		}
		return
	}
	strs := make(map[K]string, len(keys))
	for _, k := range keys {
		strs[k] = keyString(k)
	}
	sort.SliceStable(keys, func(i, j int) bool { return strs[keys[i]] < strs[keys[j]] })
}

func Map[M ~map[K]V, K comparable, V any](site string, m M) iter.Seq2[K, V] {
	return func(yield func(K, V) bool) {
		keys := make([]K, 0, len(m))
		for k := range m {
			keys = append(keys, k)
		}
		sortCanonical(keys)
		mu.Lock()
		p, ok := policy[site]
		if !ok {
			p = deflt
		}
		if len(keys) > touched[site] {
			touched[site] = len(keys)
		} else if _, seen := touched[site]; !seen {
			touched[site] = len(keys)
		}
		mu.Unlock()
		n := len(keys)
		order := make([]K, 0, n)
		switch p {
		case 1:
			for i := n - 1; i >= 0; i-- {
				order = append(order, keys[i])
			}
		case 2:
			if n > 0 {
				order = append(order, keys[1:]...)
				order = append(order, keys[0])
			}
		case 3:
			if n > 0 {
				order = append(order, keys[n-1])
				order = append(order, keys[:n-1]...)
			}
		default:
			order = keys
		}
		for _, k := range order {
			v, ok := m[k]
			if !ok {
				continue // deleted during iteration
			}
			if !yield(k, v) {
				return
			}
		}
	}
}

// ---------------------------------------------------------------- reflect map iteration

func orderKeys(site string, keys []reflect.Value) []reflect.Value {
	strs := make([]string, len(keys))
	for i, k := range keys {
		if k.CanInterface() {
			strs[i] = fmt.Sprintf("%v", k.Interface())
		} else {
			strs[i] = k.String()
		}
	}
	idx := make([]int, len(keys))
	for i := range idx {
		idx[i] = i
	}
	sort.SliceStable(idx, func(a, b int) bool { return strs[idx[a]] < strs[idx[b]] })
	sorted := make([]reflect.Value, len(keys))
	for i, j := range idx {
		sorted[i] = keys[j]
	}
	mu.Lock()
	p, ok := policy[site]
	if !ok {
		p = deflt
	}
	if len(keys) > touched[site] {
		touched[site] = len(keys)
	} else if _, seen := touched[site]; !seen {
		touched[site] = len(keys)
	}
	mu.Unlock()
	n := len(sorted)
	out := make([]reflect.Value, 0, n)
	switch p {
	case 1:
		for i := n - 1; i >= 0; i-- {
			out = append(out, sorted[i])
		}
	case 2:
		if n > 0 {
			out = append(append(out, sorted[1:]...), sorted[0])
		}
	case 3:
		if n > 0 {
			out = append(append(out, sorted[n-1]), sorted[:n-1]...)
		}
	default:
		out = sorted
	}
	return out
}

// MapKeys replaces reflect.Value.MapKeys.
func MapKeys(site string, v reflect.Value) []reflect.Value { return orderKeys(site, v.MapKeys()) }

// MapIter replaces *reflect.MapIter.
type MapIter struct {
	m    reflect.Value
	keys []reflect.Value
	i    int
}

// MapRange replaces reflect.Value.MapRange.
func MapRange(site string, v reflect.Value) *MapIter {
	return &MapIter{m: v, keys: orderKeys(site, v.MapKeys()), i: -1}
}

func (it *MapIter) Next() bool           { it.i++; return it.i < len(it.keys) }
func (it *MapIter) Key() reflect.Value   { return it.keys[it.i] }
func (it *MapIter) Value() reflect.Value { return it.m.MapIndex(it.keys[it.i]) }
func (it *MapIter) Reset(v reflect.Value) {
	it.m, it.keys, it.i = v, orderKeys("reset", v.MapKeys()), -1
}

// Seq2 replaces reflect.Value.Seq2 on maps.
func Seq2(site string, v reflect.Value) iter.Seq2[reflect.Value, reflect.Value] {
	if v.Kind() != reflect.Map {
		return v.Seq2()
	}
	return func(yield func(reflect.Value, reflect.Value) bool) {
		for _, k := range orderKeys(site, v.MapKeys()) {
			if !yield(k, v.MapIndex(k)) {
				return
			}
		}
	}
}

// ---------------------------------------------------------------- sync.Map iteration

// SyncRange replaces the method value m.Range of a sync.Map (both `range m.Range` and
// `m.Range(func…)`): the entries are snapshotted, ordered canonically by key and visited in the
// order the site's policy selects.
func SyncRange(site string, m *sync.Map) func(yield func(k, v any) bool) {
	return func(yield func(k, v any) bool) {
		type kv struct {
			k, v any
			s    string
		}
		var all []kv
		m.Range(func(k, v any) bool {
			all = append(all, kv{k, v, keyString(k)})
			return true
		})
		sort.SliceStable(all, func(i, j int) bool { return all[i].s < all[j].s })
		mu.Lock()
		p, ok := policy[site]
		if !ok {
			p = deflt
		}
		if _, seen := touched[site]; !seen || len(all) > touched[site] {
			touched[site] = len(all)
		}
		mu.Unlock()
		n := len(all)
		order := make([]kv, 0, n)
		switch p {
		case 1:
			for i := n - 1; i >= 0; i-- {
				order = append(order, all[i])
			}
		case 2:
			if n > 0 {
				order = append(append(order, all[1:]...), all[0])
			}
		case 3:
			if n > 0 {
				order = append(append(order, all[n-1]), all[:n-1]...)
			}
		default:
			order = all
		}
		for _, e := range order {
			if !yield(e.k, e.v) {
				return
			}
		}
	}
}
