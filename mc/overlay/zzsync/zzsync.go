// Package zzsync is a drop-in replacement for the parts of package sync used by
// the code under test, in which every operation is a scheduling point of a
// cooperative, deterministic scheduler. It is injected with `go build -overlay`
// (as github.com/octohelm/gengo/pkg/zzsync) and never exists in /repo.
//
// Without an active scheduler every type behaves like its sync counterpart
// (guarded by a real mutex), so package init code and sequential checks work.
package zzsync

import (
	"fmt"
	"sort"
	"sync"
	"time"
)

// ---------------------------------------------------------------- scheduler

type thread struct {
	id      int
	resume  chan struct{}
	enabled func() bool // nil = always
	done    bool
	op      string
}

// Scheduler runs thread bodies one at a time and asks choose() at every
// scheduling point which enabled thread continues.
type Scheduler struct {
	threads []*thread
	yield   chan *thread
	cur     *thread
	choose  func(n int) int
	Trace   []string
	Points  int
	Dead    bool // deadlock observed
	Stuck   bool // a thread blocked on something the shim does not control (channel, real lock, ...)
	panics  []any
}

var (
	active *Scheduler
	gmu    sync.Mutex // protects shim state when no scheduler is active
)

// Run executes the bodies under the scheduler. choose(n) picks among n enabled
// threads listed in canonical order: the thread that was running first (if it
// is still enabled), then ascending ids. It returns false on deadlock.
func Run(choose func(n int) int, bodies ...func()) (s *Scheduler) {
	s = &Scheduler{yield: make(chan *thread), choose: choose}
	for i, b := range bodies {
		t := &thread{id: i, resume: make(chan struct{})}
		s.threads = append(s.threads, t)
		b := b
		go func() {
			<-t.resume
			defer func() {
				if r := recover(); r != nil {
					s.panics = append(s.panics, fmt.Sprintf("thread %d panicked: %v", t.id, r))
				}
				t.done = true
				s.yield <- t
			}()
			b()
		}()
	}
	active = s
	defer func() { active = nil }()
	var last *thread
	for {
		var en []*thread
		for _, t := range s.threads {
			if !t.done && (t.enabled == nil || t.enabled()) {
				en = append(en, t)
			}
		}
		if len(en) == 0 {
			for _, t := range s.threads {
				if !t.done {
					s.Dead = true
				}
			}
			return s
		}
		sort.Slice(en, func(i, j int) bool {
			if (en[i] == last) != (en[j] == last) {
				return en[i] == last
			}
			return en[i].id < en[j].id
		})
		k := 0
		if len(en) > 1 {
			k = s.choose(len(en))
		}
		t := en[k]
		s.cur = t
		s.Trace = append(s.Trace, fmt.Sprintf("t%d:%s", t.id, t.op))
		t.enabled = nil
		t.resume <- struct{}{}
		select {
		case <-s.yield:
		case <-time.After(StuckAfter):
			// the thread neither finished nor reached a scheduling point: it waits for something the
			// scheduler does not own; the execution cannot be continued deterministically
			s.Stuck = true
			return s
		}
		last = t
	}
}

// StuckAfter: how long a resumed thread may run without reaching a scheduling point or finishing
// before the execution is given up as stuck (each step takes microseconds).
var StuckAfter = 60 * time.Second

func (s *Scheduler) Panics() []any { return s.panics }

// point is called by the running thread before a shim operation: it hands
// control back to the scheduler and continues when chosen again (and enabled).
func point(op string, enabled func() bool) {
	s := active
	if s == nil || s.cur == nil {
		return
	}
	t := s.cur
	t.op = op
	t.enabled = enabled
	s.Points++
	s.yield <- t
	<-t.resume
}

func lock() {
	if active == nil {
		gmu.Lock()
	}
}

func unlock() {
	if active == nil {
		gmu.Unlock()
	}
}

// ---------------------------------------------------------------- registry (reset between executions)

var maps []*Map

// ResetMaps empties every Map ever used (memoisation caches of the code under
// test), so that executions are independent of one another.
func ResetMaps() {
	for _, m := range maps {
		m.m = nil
	}
}

// ---------------------------------------------------------------- sync.Map

type Map struct {
	m          map[any]any
	registered bool
}

func (m *Map) init() {
	if !m.registered {
		m.registered = true
		maps = append(maps, m)
	}
	if m.m == nil {
		m.m = map[any]any{}
	}
}

func (m *Map) Load(key any) (value any, ok bool) {
	point("Map.Load", nil)
	lock()
	defer unlock()
	m.init()
	value, ok = m.m[key]
	return
}

func (m *Map) Store(key, value any) {
	point("Map.Store", nil)
	lock()
	defer unlock()
	m.init()
	m.m[key] = value
}

func (m *Map) LoadOrStore(key, value any) (actual any, loaded bool) {
	point("Map.LoadOrStore", nil)
	lock()
	defer unlock()
	m.init()
	if v, ok := m.m[key]; ok {
		return v, true
	}
	m.m[key] = value
	return value, false
}

func (m *Map) LoadAndDelete(key any) (value any, loaded bool) {
	point("Map.LoadAndDelete", nil)
	lock()
	defer unlock()
	m.init()
	value, loaded = m.m[key]
	delete(m.m, key)
	return
}

func (m *Map) Delete(key any) { m.LoadAndDelete(key) }

func (m *Map) Swap(key, value any) (previous any, loaded bool) {
	point("Map.Swap", nil)
	lock()
	defer unlock()
	m.init()
	previous, loaded = m.m[key]
	m.m[key] = value
	return
}

func (m *Map) CompareAndSwap(key, old, new any) bool {
	point("Map.CompareAndSwap", nil)
	lock()
	defer unlock()
	m.init()
	if v, ok := m.m[key]; ok && v == old {
		m.m[key] = new
		return true
	}
	return false
}

func (m *Map) CompareAndDelete(key, old any) bool {
	point("Map.CompareAndDelete", nil)
	lock()
	defer unlock()
	m.init()
	if v, ok := m.m[key]; ok && v == old {
		delete(m.m, key)
		return true
	}
	return false
}

func (m *Map) Range(f func(key, value any) bool) {
	point("Map.Range", nil)
	lock()
	m.init()
	type kv struct{ k, v any }
	var all []kv
	for k, v := range m.m {
		all = append(all, kv{k, v})
	}
	unlock()
	sort.Slice(all, func(i, j int) bool { return fmt.Sprint(all[i].k) < fmt.Sprint(all[j].k) })
	for _, e := range all {
		if !f(e.k, e.v) {
			return
		}
	}
}

func (m *Map) Clear() {
	point("Map.Clear", nil)
	lock()
	defer unlock()
	m.m = nil
}

// ---------------------------------------------------------------- Mutex / RWMutex

type Locker = sync.Locker

type Mutex struct {
	locked bool
	real   sync.Mutex
}

func (m *Mutex) Lock() {
	if active == nil {
		m.real.Lock()
		return
	}
	point("Mutex.Lock", func() bool { return !m.locked })
	m.locked = true
}

func (m *Mutex) TryLock() bool {
	if active == nil {
		return m.real.TryLock()
	}
	point("Mutex.TryLock", nil)
	if m.locked {
		return false
	}
	m.locked = true
	return true
}

func (m *Mutex) Unlock() {
	if active == nil {
		m.real.Unlock()
		return
	}
	point("Mutex.Unlock", nil)
	if !m.locked {
		panic("zzsync: unlock of unlocked mutex")
	}
	m.locked = false
}

type RWMutex struct {
	writer  bool
	readers int
	real    sync.RWMutex
}

func (m *RWMutex) Lock() {
	if active == nil {
		m.real.Lock()
		return
	}
	point("RWMutex.Lock", func() bool { return !m.writer && m.readers == 0 })
	m.writer = true
}

func (m *RWMutex) Unlock() {
	if active == nil {
		m.real.Unlock()
		return
	}
	point("RWMutex.Unlock", nil)
	m.writer = false
}

func (m *RWMutex) RLock() {
	if active == nil {
		m.real.RLock()
		return
	}
	point("RWMutex.RLock", func() bool { return !m.writer })
	m.readers++
}

func (m *RWMutex) RUnlock() {
	if active == nil {
		m.real.RUnlock()
		return
	}
	point("RWMutex.RUnlock", nil)
	m.readers--
}

func (m *RWMutex) TryLock() bool {
	if active == nil {
		return m.real.TryLock()
	}
	point("RWMutex.TryLock", nil)
	if m.writer || m.readers > 0 {
		return false
	}
	m.writer = true
	return true
}

func (m *RWMutex) TryRLock() bool {
	if active == nil {
		return m.real.TryRLock()
	}
	point("RWMutex.TryRLock", nil)
	if m.writer {
		return false
	}
	m.readers++
	return true
}

func (m *RWMutex) RLocker() Locker { return rlocker{m} }

type rlocker struct{ m *RWMutex }

func (r rlocker) Lock()   { r.m.RLock() }
func (r rlocker) Unlock() { r.m.RUnlock() }

// ---------------------------------------------------------------- Once family

type Once struct {
	state int // 0 = not started, 1 = running, 2 = done
	real  sync.Once
}

func (o *Once) Do(f func()) {
	if active == nil {
		o.real.Do(f)
		return
	}
	// a caller arriving while another thread runs f is blocked, not spinning
	point("Once.Do", func() bool { return o.state != 1 })
	if o.state == 2 {
		return
	}
	o.state = 1
	defer func() { o.state = 2 }()
	f()
}

func OnceFunc(f func()) func() {
	var o Once
	var p any
	var valid bool
	return func() {
		o.Do(func() {
			defer func() {
				p = recover()
				if !valid {
					panic(p)
				}
			}()
			f()
			valid = true
		})
		if !valid {
			panic(p)
		}
	}
}

func OnceValue[T any](f func() T) func() T {
	var o Once
	var r T
	var p any
	var valid bool
	return func() T {
		o.Do(func() {
			defer func() {
				p = recover()
				if !valid {
					panic(p)
				}
			}()
			r = f()
			valid = true
		})
		if !valid {
			panic(p)
		}
		return r
	}
}

func OnceValues[T1, T2 any](f func() (T1, T2)) func() (T1, T2) {
	var o Once
	var r1 T1
	var r2 T2
	var p any
	var valid bool
	return func() (T1, T2) {
		o.Do(func() {
			defer func() {
				p = recover()
				if !valid {
					panic(p)
				}
			}()
			r1, r2 = f()
			valid = true
		})
		if !valid {
			panic(p)
		}
		return r1, r2
	}
}

// ---------------------------------------------------------------- WaitGroup / Pool / Cond

type WaitGroup struct {
	n    int
	real sync.WaitGroup
}

func (w *WaitGroup) Add(d int) {
	if active == nil {
		w.real.Add(d)
		return
	}
	point("WaitGroup.Add", nil)
	w.n += d
}

func (w *WaitGroup) Done() { w.Add(-1) }

func (w *WaitGroup) Wait() {
	if active == nil {
		w.real.Wait()
		return
	}
	point("WaitGroup.Wait", func() bool { return w.n <= 0 })
}

func (w *WaitGroup) Go(f func()) {
	w.Add(1)
	go func() {
		defer w.Done()
		f()
	}()
}

// Pool never caches under the scheduler (a legal behaviour of sync.Pool).
type Pool struct {
	New  func() any
	real sync.Pool
}

func (p *Pool) Get() any {
	point("Pool.Get", nil)
	if p.New != nil {
		return p.New()
	}
	return nil
}

func (p *Pool) Put(x any) { point("Pool.Put", nil) }

type Cond = sync.Cond

func NewCond(l Locker) *Cond { return sync.NewCond(l) }
