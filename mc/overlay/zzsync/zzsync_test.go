package zzsync

import "testing"

// explore runs body for every schedule (DFS over the choices of the scheduler).
func explore(t *testing.T, mk func() (bodies []func(), check func(s *Scheduler) bool)) (schedules, bad int) {
	stack := [][]int{{}}
	for len(stack) > 0 {
		prefix := stack[len(stack)-1]
		stack = stack[:len(stack)-1]
		var trace, widths []int
		choose := func(n int) int {
			v := 0
			if len(trace) < len(prefix) {
				v = prefix[len(trace)]
			}
			trace = append(trace, v)
			widths = append(widths, n)
			return v
		}
		bodies, check := mk()
		s := Run(choose, bodies...)
		schedules++
		if !check(s) {
			bad++
		}
		for i := len(trace) - 1; i >= len(prefix); i-- {
			for v := widths[i] - 1; v >= 1; v-- {
				np := append(append([]int{}, trace[:i]...), v)
				stack = append(stack, np)
			}
		}
		if schedules > 200000 {
			t.Fatal("runaway exploration")
		}
	}
	return
}

// A check-then-act counter on a Map (Load, then Store of value+1) loses updates under some
// schedules and not under others: the explorer must find both kinds.
func TestFindsLostUpdate(t *testing.T) {
	schedules, bad := explore(t, func() ([]func(), func(*Scheduler) bool) {
		var m Map
		m.Store("n", 0)
		inc := func() {
			v, _ := m.Load("n")
			m.Store("n", v.(int)+1)
		}
		return []func(){inc, inc}, func(s *Scheduler) bool {
			v, _ := m.Load("n")
			return v.(int) == 2
		}
	})
	if bad == 0 || bad == schedules {
		t.Fatalf("lost update must show in some but not all of the %d schedules, got %d", schedules, bad)
	}
}

// Two mutexes taken in opposite orders deadlock under some schedules.
func TestFindsDeadlock(t *testing.T) {
	schedules, bad := explore(t, func() ([]func(), func(*Scheduler) bool) {
		var a, b Mutex
		t1 := func() { a.Lock(); b.Lock(); b.Unlock(); a.Unlock() }
		t2 := func() { b.Lock(); a.Lock(); a.Unlock(); b.Unlock() }
		return []func(){t1, t2}, func(s *Scheduler) bool { return !s.Dead }
	})
	if bad == 0 || bad == schedules {
		t.Fatalf("lock-order deadlock must show in some but not all of the %d schedules, got %d", schedules, bad)
	}
}

// OnceValue: the function runs once under every schedule and every caller gets its value.
func TestOnceValueUnderAllSchedules(t *testing.T) {
	_, bad := explore(t, func() ([]func(), func(*Scheduler) bool) {
		calls := 0
		f := OnceValue(func() int { calls++; return 42 })
		var r [3]int
		return []func(){func() { r[0] = f() }, func() { r[1] = f() }, func() { r[2] = f() }}, func(s *Scheduler) bool {
			return !s.Dead && calls == 1 && r == [3]int{42, 42, 42}
		}
	})
	if bad != 0 {
		t.Fatalf("OnceValue misbehaved under %d schedules", bad)
	}
}
