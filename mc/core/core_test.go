package core

import (
	"os"
	"path/filepath"
	"testing"
)

// The known-findings protocol: only a class listed as "known" for the same property is
// downgraded; "fixed" entries, other properties' entries and unlisted classes are violations.
func TestKnownFindingProtocol(t *testing.T) {
	dir := t.TempDir()
	t.Setenv("VERIF_ROOT", dir)
	err := os.WriteFile(filepath.Join(dir, "known_findings.json"), []byte(`{"findings":[
	 {"id":"K1","property":"C99","status":"known","what":"x"},
	 {"id":"F1","property":"C99","status":"fixed","commit":"abc","what":"x"},
	 {"id":"O1","property":"C98","status":"known","what":"x"}]}`), 0o644)
	if err != nil {
		t.Fatal(err)
	}
	c := newCtx("C99", "quick", 0, 0, 1)
	c.Fail("K1", "case", "known deviation")
	c.Fail("K1", "case2", "known deviation again")
	if c.res.NViolations != 0 || c.res.Known["K1"] == nil || c.res.Known["K1"].Count != 2 {
		t.Fatalf("known class must be downgraded: %+v", c.res)
	}
	c.Fail("F1", "case", "a fixed defect came back")
	c.Fail("O1", "case", "class known for another property")
	c.Fail("", "case", "unclassified")
	c.Fail("NEW", "case", "class not in the file")
	if c.res.NViolations != 4 {
		t.Fatalf("fixed / foreign / unlisted classes must be violations, got %d", c.res.NViolations)
	}
}

func TestExploreEnumeratesAllVectorsOnceInOrder(t *testing.T) {
	t.Setenv("VERIF_ROOT", t.TempDir())
	c := newCtx("C99", "quick", 0, 0, 1)
	var seen []string
	n := Explore(c, ExploreOpts{Bound: -1}, func(ch *Chooser, _ bool) {
		a := ch.Choose(3)
		b := 0
		if a > 0 {
			b = ch.Choose(2) // execution-dependent choice point
		}
		seen = append(seen, string(rune('0'+a))+string(rune('0'+b)))
	})
	want := []string{"00", "10", "11", "20", "21"}
	if n != int64(len(want)) {
		t.Fatalf("executions %d, want %d (%v)", n, len(want), seen)
	}
	for i := range want {
		if seen[i] != want[i] {
			t.Fatalf("order %v, want %v", seen, want)
		}
	}
	// deviation bound 1: vectors with at most one non-zero choice
	seen = nil
	Explore(c, ExploreOpts{Bound: 1}, func(ch *Chooser, _ bool) {
		a, b := ch.Choose(2), ch.Choose(2)
		seen = append(seen, string(rune('0'+a))+string(rune('0'+b)))
	})
	if len(seen) != 3 {
		t.Fatalf("bound 1 over 2x2 must give 00,01,10: %v", seen)
	}
}

func TestReplayDivergenceIsLoud(t *testing.T) {
	defer func() {
		if recover() == nil {
			t.Fatal("an out-of-range replayed choice must panic")
		}
	}()
	ch := NewReplayChooser([]int{5})
	ch.Choose(2)
}
