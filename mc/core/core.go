// Package core is the shared run-time of every check: sharding, counters,
// violation / known-finding bookkeeping, evidence files and replay files.
package core

import (
	"encoding/gob"
	"encoding/json"
	"fmt"
	"hash/fnv"
	"io"
	"os"
	"os/exec"
	"path/filepath"
	"runtime"
	"sort"
	"strconv"
	"strings"
	"sync"
	"time"
)

// Prop is one registered property check.
type Prop struct {
	ID    string
	Level string // model_checking | fault_enumeration
	// Run enumerates the whole bounded space; it must call c.Next() (or use an
	// Explorer bound to c) so that the work is split between shards.
	Run func(c *Ctx)
	// Replay re-executes exactly one recorded case (the Case field of a
	// violation) against the current tree, reporting through c like Run does.
	Replay func(c *Ctx, raw json.RawMessage)
	// Serial forces a single shard (checks that do their own process fan-out).
	Serial bool
	// Shards caps the number of shard processes (0 = one per core, at most 16);
	// compile-and-run checks use few shards because `go build` is parallel itself.
	Shards int
	// Assumptions listed in the evidence file.
	Assumptions []string
	Rule        string
}

var registry = map[string]*Prop{}

func Register(p *Prop) { registry[p.ID] = p }

func Lookup(id string) *Prop { return registry[id] }

func IDs() []string {
	ids := make([]string, 0, len(registry))
	for k := range registry {
		ids = append(ids, k)
	}
	sort.Strings(ids)
	return ids
}

// Violation is one failing case.
type Violation struct {
	Class string          // deviation class recognised by the check ("" = none)
	Msg   string          // expected vs observed
	Case  json.RawMessage // input to Prop.Replay
}

type knownHit struct {
	Count   int64
	Example string
	Case    json.RawMessage
}

// ShardResult is what one shard reports to the parent.
type ShardResult struct {
	Evaluations int64
	Transitions int64
	Traces      int64
	States      map[uint64]struct{}
	Nontrivial  map[uint64]struct{}
	Samples     []string // JSON texts
	Violations  []Violation
	NViolations int64
	Known       map[string]*knownHit
	Caps        []string
	Bounds      map[string]string // JSON texts
	Counters    map[string]int64
	Internal    []string
	ClassCounts map[string]int64
}

// Ctx is handed to a check body.
type Ctx struct {
	Prop   string
	Tier   string
	Seed   int64
	Shard  int
	Shards int

	mu     sync.Mutex
	idx    int64
	res    *ShardResult
	known  map[string]KnownEntry
	replay bool
}

func newCtx(prop, tier string, seed int64, shard, shards int) *Ctx {
	return &Ctx{
		Prop: prop, Tier: tier, Seed: seed, Shard: shard, Shards: shards,
		res: &ShardResult{
			States:      map[uint64]struct{}{},
			Nontrivial:  map[uint64]struct{}{},
			Known:       map[string]*knownHit{},
			Bounds:      map[string]string{},
			Counters:    map[string]int64{},
			ClassCounts: map[string]int64{},
		},
		known: loadKnown(),
	}
}

func (c *Ctx) Thorough() bool { return c.Tier == "thorough" }
func (c *Ctx) IsReplay() bool { return c.replay }

// Pick returns q for the quick tier and t for the thorough tier.
func (c *Ctx) Pick(q, t int) int {
	if c.Thorough() {
		return t
	}
	return q
}

// Next advances the case counter and tells whether this shard owns the case.
func (c *Ctx) Next() bool {
	c.mu.Lock()
	defer c.mu.Unlock()
	i := c.idx
	c.idx++
	return int(i%int64(c.Shards)) == c.Shard
}

// Owns tells whether this shard owns a case identified by a stable key.
func (c *Ctx) Owns(key string) bool {
	return int(H(key)%uint64(c.Shards)) == c.Shard
}

func H(s string) uint64 {
	h := fnv.New64a()
	_, _ = h.Write([]byte(s))
	return h.Sum64()
}

func (c *Ctx) Eval(n int)  { c.mu.Lock(); c.res.Evaluations += int64(n); c.mu.Unlock() }
func (c *Ctx) Trans(n int) { c.mu.Lock(); c.res.Transitions += int64(n); c.mu.Unlock() }
func (c *Ctx) Trace(n int) { c.mu.Lock(); c.res.Traces += int64(n); c.mu.Unlock() }
func (c *Ctx) Count(k string, n int) {
	c.mu.Lock()
	c.res.Counters[k] += int64(n)
	c.mu.Unlock()
}

// State records a distinct explored state / outcome class.
func (c *Ctx) State(key string) {
	c.mu.Lock()
	c.res.States[H(key)] = struct{}{}
	c.mu.Unlock()
}

// Nontrivial records a distinct case that is non-trivial by the check's rule.
func (c *Ctx) Nontrivial(key string) {
	c.mu.Lock()
	c.res.Nontrivial[H(key)] = struct{}{}
	c.mu.Unlock()
}

func (c *Ctx) Sample(v any) {
	c.mu.Lock()
	defer c.mu.Unlock()
	if len(c.res.Samples) >= 4 {
		return
	}
	b, _ := json.Marshal(v)
	c.res.Samples = append(c.res.Samples, string(b))
}

func (c *Ctx) Bound(k string, v any) {
	b, _ := json.Marshal(v)
	c.mu.Lock()
	c.res.Bounds[k] = string(b)
	c.mu.Unlock()
}

// Cap records that a cap was hit: the run is then not exhaustive.
func (c *Ctx) Cap(note string) {
	c.mu.Lock()
	c.res.Caps = append(c.res.Caps, note)
	c.mu.Unlock()
}

// Internal records a harness problem (exit 2, never a verdict).
func (c *Ctx) Internal(format string, a ...any) {
	c.mu.Lock()
	c.res.Internal = append(c.res.Internal, fmt.Sprintf(format, a...))
	c.mu.Unlock()
}

// Fail reports a case on which the property does not hold. class names the
// deviation rule that explains the observation exactly ("" when none does);
// the case is a known finding only if known_findings.json lists that class for
// this property with status "known".
func (c *Ctx) Fail(class string, cs any, format string, a ...any) {
	msg := fmt.Sprintf(format, a...)
	raw, _ := json.Marshal(cs)
	if d, ok := os.LookupEnv("VERIF_DEBUG_CLASS"); ok && d == class {
		fmt.Fprintf(os.Stderr, "DEBUG class=%q %s\n", class, oneLine(msg, 700))
	}
	c.mu.Lock()
	defer c.mu.Unlock()
	if class != "" {
		if e, ok := c.known[class]; ok && e.Property == c.Prop && e.Status == "known" {
			h := c.res.Known[class]
			if h == nil {
				h = &knownHit{Example: msg, Case: raw}
				c.res.Known[class] = h
			}
			h.Count++
			return
		}
	}
	c.res.NViolations++
	c.res.ClassCounts[class]++
	// keep a diverse set: at most 3 per (class, message shape)
	dk := "\x00" + class + "|" + msg[:min(len(msg), 8)]
	c.res.ClassCounts[dk]++
	if c.res.ClassCounts[dk] <= 3 && len(c.res.Violations) < 60 {
		c.res.Violations = append(c.res.Violations, Violation{Class: class, Msg: msg, Case: raw})
	}
}

// KnownEntry is one line of /verif/known_findings.json.
type KnownEntry struct {
	ID       string `json:"id"`
	Property string `json:"property"`
	Status   string `json:"status"` // known | fixed
	Commit   string `json:"commit,omitempty"`
	What     string `json:"what"`
	Minimal  string `json:"minimal_failing_case,omitempty"`
}

func Root() string {
	if r := os.Getenv("VERIF_ROOT"); r != "" {
		return r
	}
	return "/verif"
}

func RepoDir() string {
	if r := os.Getenv("REPO"); r != "" {
		return r
	}
	return "/repo"
}

func loadKnown() map[string]KnownEntry {
	m := map[string]KnownEntry{}
	data, err := os.ReadFile(filepath.Join(Root(), "known_findings.json"))
	if err != nil {
		return m
	}
	var f struct {
		Findings []KnownEntry `json:"findings"`
	}
	if err := json.Unmarshal(data, &f); err != nil {
		fmt.Fprintln(os.Stderr, "known_findings.json:", err)
		os.Exit(2)
	}
	for _, e := range f.Findings {
		m[e.ID] = e
	}
	return m
}

// ---------------------------------------------------------------------------
// driver

// Main is the entry point of cmd/vcheck.
func Main(args []string) int {
	ensureEnv()
	if len(args) >= 2 && args[0] == "replay" {
		return replayMain(args[1])
	}
	if len(args) >= 1 && args[0] == "shard" {
		return shardMain(args[1:])
	}
	if len(args) >= 2 && args[0] == "worker" {
		w := workers[args[1]]
		if w == nil {
			fmt.Fprintln(os.Stderr, "unknown worker", args[1])
			return 2
		}
		return w(args[2:])
	}
	if len(args) < 1 {
		fmt.Fprintln(os.Stderr, "usage: vcheck <ID> [quick|thorough] | vcheck replay <file> | vcheck list")
		return 2
	}
	if args[0] == "list" {
		for _, id := range IDs() {
			fmt.Println(id)
		}
		return 0
	}
	id := args[0]
	tier := "quick"
	if len(args) > 1 {
		tier = args[1]
	}
	if t := os.Getenv("VERIF_TIER"); t != "" && len(args) < 2 {
		tier = t
	}
	return parentMain(id, tier)
}

func seedFromEnv() int64 {
	if s := os.Getenv("VERIF_SEED"); s != "" {
		if v, err := strconv.ParseInt(s, 10, 64); err == nil {
			return v
		}
	}
	return 0
}

func shardMain(args []string) int {
	// shard <ID> <tier> <shard> <shards> <outfile>
	id, tier := args[0], args[1]
	shard, _ := strconv.Atoi(args[2])
	shards, _ := strconv.Atoi(args[3])
	out := args[4]
	p := Lookup(id)
	if p == nil {
		fmt.Fprintln(os.Stderr, "unknown property", id)
		return 2
	}
	c := newCtx(id, tier, seedFromEnv(), shard, shards)
	func() {
		defer func() {
			if r := recover(); r != nil {
				buf := make([]byte, 1<<14)
				buf = buf[:runtime.Stack(buf, false)]
				c.Internal("harness panic in shard %d: %v\n%s", shard, r, buf)
			}
		}()
		p.Run(c)
	}()
	f, err := os.Create(out)
	if err != nil {
		fmt.Fprintln(os.Stderr, err)
		return 2
	}
	defer f.Close()
	if err := gob.NewEncoder(f).Encode(c.res); err != nil {
		fmt.Fprintln(os.Stderr, err)
		return 2
	}
	return 0
}

func numShards(p *Prop) int {
	if p.Serial {
		return 1
	}
	if s := os.Getenv("VERIF_SHARDS"); s != "" {
		if v, err := strconv.Atoi(s); err == nil && v > 0 {
			return v
		}
	}
	n := runtime.NumCPU()
	if n > 16 {
		n = 16
	}
	if p.Shards > 0 && n > p.Shards {
		n = p.Shards
	}
	if n < 1 {
		n = 1
	}
	return n
}

func parentMain(id, tier string) int {
	p := Lookup(id)
	if p == nil {
		fmt.Fprintln(os.Stderr, "unknown property", id)
		return 2
	}
	start := time.Now()
	seed := seedFromEnv()
	n := numShards(p)
	tmp, err := os.MkdirTemp("", "gvf-"+id+"-")
	if err != nil {
		fmt.Fprintln(os.Stderr, err)
		return 2
	}
	defer os.RemoveAll(tmp)
	exe, _ := os.Executable()

	results := make([]*ShardResult, n)
	errs := make([]error, n)
	var wg sync.WaitGroup
	for i := 0; i < n; i++ {
		wg.Add(1)
		go func(i int) {
			defer wg.Done()
			out := filepath.Join(tmp, fmt.Sprintf("shard-%d.gob", i))
			cmd := exec.Command(exe, "shard", id, tier, strconv.Itoa(i), strconv.Itoa(n), out)
			cmd.Stderr = os.Stderr
			cmd.Stdout = os.Stderr // shards never print verdict lines
			cmd.Env = append(os.Environ(), "GOMAXPROCS="+gomaxprocsFor(n))
			if err := cmd.Run(); err != nil {
				errs[i] = fmt.Errorf("shard %d: %w", i, err)
				return
			}
			f, err := os.Open(out)
			if err != nil {
				errs[i] = err
				return
			}
			defer f.Close()
			r := &ShardResult{}
			if err := gob.NewDecoder(f).Decode(r); err != nil {
				errs[i] = err
				return
			}
			results[i] = r
		}(i)
	}
	wg.Wait()
	for _, e := range errs {
		if e != nil {
			fmt.Fprintln(os.Stderr, "INTERNAL:", e)
			return 2
		}
	}

	m := merge(results)
	wall := time.Since(start).Seconds()

	if len(m.Internal) > 0 {
		for _, s := range m.Internal {
			fmt.Fprintln(os.Stderr, "INTERNAL:", s)
		}
		return 2
	}

	// known findings
	kids := make([]string, 0, len(m.Known))
	for k := range m.Known {
		kids = append(kids, k)
	}
	sort.Strings(kids)
	for _, k := range kids {
		h := m.Known[k]
		fmt.Printf("KNOWN-FINDING: property=%s %s cases=%d e.g. %s\n", id, k, h.Count, oneLine(h.Example, 300))
	}

	// violations
	code := 0
	if m.NViolations > 0 {
		code = 1
		_ = os.MkdirAll(filepath.Join(Root(), "replays"), 0o755)
		// cases that fail again when executed alone in a fresh process are listed first
		if len(m.Violations) > 1 {
			alone := make([]bool, len(m.Violations))
			var pw sync.WaitGroup
			sem := make(chan struct{}, 16)
			for i, v := range m.Violations {
				pw.Add(1)
				sem <- struct{}{}
				go func(i int, v Violation) {
					defer func() { <-sem; pw.Done() }()
					path := filepath.Join(tmp, fmt.Sprintf("probe-%d.json", i))
					rf := ReplayFile{Property: id, Tier: tier, Class: v.Class, Msg: v.Msg, Case: v.Case}
					b, _ := json.MarshalIndent(rf, "", " ")
					_ = os.WriteFile(path, b, 0o644)
					alone[i] = reproduces(exe, path, 1) == 1
				}(i, v)
			}
			pw.Wait()
			var first, rest []Violation
			for i, v := range m.Violations {
				if alone[i] {
					first = append(first, v)
				} else {
					rest = append(rest, v)
				}
			}
			m.Violations = append(first, rest...)
		}
		if len(m.Violations) > 10 {
			m.Violations = m.Violations[:10]
		}
		for i, v := range m.Violations {
			path := filepath.Join(Root(), "replays", fmt.Sprintf("%s-%s-%d.json", id, tier, i))
			rf := ReplayFile{Property: id, Tier: tier, Class: v.Class, Msg: v.Msg, Case: v.Case}
			b, _ := json.MarshalIndent(rf, "", " ")
			_ = os.WriteFile(path, b, 0o644)
			repro := ""
			if i == 0 {
				// re-execute the recorded case before printing it
				k := reproduces(exe, path, 3)
				repro = fmt.Sprintf(" (re-executed from the replay file: failed again %d/3 times)", k)
				if replayErrors > 0 {
					repro += fmt.Sprintf(" -- %d re-execution(s) ended with an error of the harness itself (exit status other than 0 and 1): run `./check replay %s` to see it", replayErrors, path)
				} else if k < 3 {
					repro += " -- the case does not fail every time when executed alone in a fresh process: it depends on cases executed earlier in the same process (hidden state) or on nondeterminism of the implementation"
				}
			}
			fmt.Printf("VIOLATION property=%s replay=%s\n", id, path)
			fmt.Printf("  class=%q %s%s\n", v.Class, oneLine(v.Msg, 600), repro)
		}
		for k, v := range m.ClassCounts {
			if strings.HasPrefix(k, "\x00") {
				continue
			}
			fmt.Printf("  violations by class: %q = %d\n", k, v)
		}
		if int(m.NViolations) > len(m.Violations) {
			fmt.Printf("  (%d violating cases in total, first %d written)\n", m.NViolations, len(m.Violations))
		}
	}

	writeEvidence(p, tier, seed, m, wall, kids)
	fmt.Printf("%s %s: evaluations=%d states=%d transitions=%d nontrivial=%d violations=%d known=%d exhaustive=%v wall=%.1fs\n",
		id, tier, m.Evaluations, len(m.States), m.Transitions, len(m.Nontrivial), m.NViolations, len(kids), len(m.Caps) == 0, wall)
	return code
}

func gomaxprocsFor(shards int) string {
	if shards >= runtime.NumCPU() {
		return "2"
	}
	return strconv.Itoa(max(2, runtime.NumCPU()/shards))
}

func oneLine(s string, n int) string {
	s = strings.ReplaceAll(s, "\n", "\\n")
	if len(s) > n {
		s = s[:n] + "…"
	}
	return s
}

// replayErrors counts the re-executions (of the last reproduces call made for the printed violation) that
// neither failed nor held: the replay itself broke.
var replayErrors int

func reproduces(exe, path string, times int) int {
	n, bad := 0, 0
	for i := 0; i < times; i++ {
		cmd := exec.Command(exe, "replay", path)
		cmd.Stdout = nil
		cmd.Stderr = nil
		err := cmd.Run()
		if ee, ok := err.(*exec.ExitError); ok && ee.ExitCode() == 1 {
			n++
		} else if err != nil {
			bad++
		}
	}
	if times > 1 {
		replayErrors = bad
	}
	return n
}

type ReplayFile struct {
	Property string          `json:"property"`
	Tier     string          `json:"tier"`
	Class    string          `json:"class"`
	Msg      string          `json:"message"`
	Case     json.RawMessage `json:"case"`
}

func replayMain(path string) int {
	data, err := os.ReadFile(path)
	if err != nil {
		fmt.Fprintln(os.Stderr, err)
		return 2
	}
	var rf ReplayFile
	if err := json.Unmarshal(data, &rf); err != nil {
		fmt.Fprintln(os.Stderr, err)
		return 2
	}
	p := Lookup(rf.Property)
	if p == nil || p.Replay == nil {
		fmt.Fprintln(os.Stderr, "no replay for", rf.Property)
		return 2
	}
	c := newCtx(rf.Property, rf.Tier, seedFromEnv(), 0, 1)
	c.replay = true
	// in replay mode nothing is suppressed: known findings are shown as failures too
	c.known = map[string]KnownEntry{}
	p.Replay(c, rf.Case)
	if len(c.res.Internal) > 0 {
		for _, s := range c.res.Internal {
			fmt.Fprintln(os.Stderr, "INTERNAL:", s)
		}
		return 2
	}
	if c.res.NViolations > 0 {
		for _, v := range c.res.Violations {
			fmt.Printf("REPLAY property=%s FAILS class=%q\n%s\n", rf.Property, v.Class, v.Msg)
		}
		return 1
	}
	fmt.Printf("REPLAY property=%s holds on this case\n", rf.Property)
	return 0
}

func merge(rs []*ShardResult) *ShardResult {
	m := &ShardResult{
		States:      map[uint64]struct{}{},
		Nontrivial:  map[uint64]struct{}{},
		Known:       map[string]*knownHit{},
		Bounds:      map[string]string{},
		Counters:    map[string]int64{},
		ClassCounts: map[string]int64{},
	}
	capSeen := map[string]bool{}
	for _, r := range rs {
		m.Evaluations += r.Evaluations
		m.Transitions += r.Transitions
		m.Traces += r.Traces
		for k := range r.States {
			m.States[k] = struct{}{}
		}
		for k := range r.Nontrivial {
			m.Nontrivial[k] = struct{}{}
		}
		for _, s := range r.Samples {
			dup := false
			for _, o := range m.Samples {
				if o == s {
					dup = true
				}
			}
			if !dup && len(m.Samples) < 6 {
				m.Samples = append(m.Samples, s)
			}
		}
		m.NViolations += r.NViolations
		for _, v := range r.Violations {
			n := 0
			for _, o := range m.Violations {
				if o.Class == v.Class && o.Msg[:min(len(o.Msg), 8)] == v.Msg[:min(len(v.Msg), 8)] {
					n++
				}
			}
			if n < 3 && len(m.Violations) < 60 {
				m.Violations = append(m.Violations, v)
			}
		}
		for k, h := range r.Known {
			if o := m.Known[k]; o != nil {
				o.Count += h.Count
			} else {
				hh := *h
				m.Known[k] = &hh
			}
		}
		for _, cp := range r.Caps {
			if !capSeen[cp] {
				capSeen[cp] = true
				m.Caps = append(m.Caps, cp)
			}
		}
		for k, v := range r.Bounds {
			m.Bounds[k] = v
		}
		for k, v := range r.Counters {
			m.Counters[k] += v
		}
		for k, v := range r.ClassCounts {
			m.ClassCounts[k] += v
		}
		m.Internal = append(m.Internal, r.Internal...)
	}
	return m
}

func writeEvidence(p *Prop, tier string, seed int64, m *ShardResult, wall float64, known []string) {
	samples := make([]any, 0, len(m.Samples))
	for _, s := range m.Samples {
		var v any
		if json.Unmarshal([]byte(s), &v) == nil {
			samples = append(samples, v)
		}
	}
	bounds := map[string]any{}
	for k, s := range m.Bounds {
		var v any
		if json.Unmarshal([]byte(s), &v) == nil {
			bounds[k] = v
		}
	}
	traces := m.Traces
	if traces == 0 {
		traces = m.Evaluations
	}
	trans := m.Transitions
	if trans == 0 {
		trans = m.Evaluations
	}
	cov := map[string]any{
		"evaluations":                   m.Evaluations,
		"distinct_nontrivial":           len(m.Nontrivial),
		"rule":                          p.Rule,
		"samples":                       samples,
		"states":                        len(m.States),
		"transitions":                   trans,
		"traces_validated_against_impl": traces,
		"exhaustive":                    len(m.Caps) == 0,
		"bounds":                        bounds,
		"caps_hit":                      append([]string{}, m.Caps...),
		"counters":                      m.Counters,
		"known_findings_matched":        known,
		"explanation":                   "bounded-exhaustive exploration of the real implementation; no separate model, so every explored trace is an implementation trace",
	}
	ev := map[string]any{
		"property_id": p.ID,
		"tier":        tier,
		"seed":        seed,
		"level":       p.Level,
		"coverage":    cov,
		"assumptions": p.Assumptions,
		"wall_s":      wall,
		"violations":  m.NViolations,
	}
	b, _ := json.MarshalIndent(ev, "", " ")
	_ = os.MkdirAll(filepath.Join(Root(), "evidence"), 0o755)
	_ = os.WriteFile(filepath.Join(Root(), "evidence", p.ID+".json"), append(b, '\n'), 0o644)
}

// ---------------------------------------------------------------------------
// fresh-process workers: hidden package-level state of the library can only be
// reset by starting a new process, so call sequences "from a fresh process"
// are executed by re-invoking this binary.

var workers = map[string]func(args []string) int{}

func RegisterWorker(name string, f func(args []string) int) { workers[name] = f }

// RunWorker starts a fresh copy of this binary running the named worker.
func RunWorker(name string, stdin []byte, args ...string) (stdout []byte, stderr []byte, err error) {
	exe, _ := os.Executable()
	cmd := exec.Command(exe, append([]string{"worker", name}, args...)...)
	cmd.Stdin = strings.NewReader(string(stdin))
	var o, e strings.Builder
	cmd.Stdout = &o
	cmd.Stderr = &e
	err = cmd.Run()
	return []byte(o.String()), []byte(e.String()), err
}

// ensureEnv pins the toolchain for `go list` (spawned by packages.Load inside
// gengo) and for the compile-and-run back end, also when the binary is started
// without the wrapper script.
func ensureEnv() {
	const tc = "/root/go/pkg/mod/golang.org/toolchain@v0.0.1-go1.24.2.linux-amd64"
	if _, err := os.Stat(tc + "/bin/go"); err == nil {
		if !strings.HasPrefix(os.Getenv("PATH"), tc+"/bin:") {
			os.Setenv("PATH", tc+"/bin:"+os.Getenv("PATH"))
		}
		os.Setenv("GOROOT", tc)
	}
	os.Setenv("GOTOOLCHAIN", "local")
	os.Setenv("GOFLAGS", "-mod=mod")
	os.Setenv("GOPROXY", "off")
	if os.Getenv("VERIF_ROOT") == "" {
		os.Setenv("VERIF_ROOT", "/verif")
	}
}

// ---------------------------------------------------------------------------
// child contexts: a worker process can run check code with its own Ctx and hand
// the result back to the shard that started it.

func NewWorkerCtx(prop, tier string) *Ctx { return newCtx(prop, tier, seedFromEnv(), 0, 1) }

func (c *Ctx) WriteResult(w io.Writer) error { return gob.NewEncoder(w).Encode(c.res) }

// Absorb merges the result written by a worker's WriteResult into c.
func (c *Ctx) Absorb(data []byte) error {
	r := &ShardResult{}
	if err := gob.NewDecoder(strings.NewReader(string(data))).Decode(r); err != nil {
		return err
	}
	c.mu.Lock()
	defer c.mu.Unlock()
	m := merge([]*ShardResult{c.res, r})
	m.Samples = append([]string{}, c.res.Samples...)
	if len(m.Samples) < 4 {
		for _, s := range r.Samples {
			if len(m.Samples) < 4 {
				m.Samples = append(m.Samples, s)
			}
		}
	}
	c.res = m
	return nil
}
