package core

import "fmt"

// Chooser is the interface between a check body and the stateless explorer:
// every source of nondeterminism (input shape, environment answer, fault,
// scheduling decision) is a call to Choose.
type Chooser struct {
	prefix []int
	trace  []int
	widths []int
}

// Choose returns a value in [0,n). On the default path it returns 0.
func (ch *Chooser) Choose(n int) int {
	if n <= 0 {
		panic("Choose(n<=0)")
	}
	i := len(ch.trace)
	v := 0
	if i < len(ch.prefix) {
		v = ch.prefix[i]
		if v >= n {
			panic(fmt.Sprintf("replay divergence: choice %d at point %d but only %d alternatives", v, i, n))
		}
	}
	ch.trace = append(ch.trace, v)
	ch.widths = append(ch.widths, n)
	return v
}

// Abandon marks the execution as not carried out (the harness can no longer run executions reliably):
// the prefix counts as consumed and no alternative is scheduled below it.
func (ch *Chooser) Abandon() {
	ch.trace = append([]int(nil), ch.prefix...)
	ch.widths = make([]int, len(ch.prefix))
	for i := range ch.widths {
		ch.widths[i] = 1
	}
}

// Trace returns the choice vector of the current execution so far.
func (ch *Chooser) Trace() []int { return append([]int(nil), ch.trace...) }

// NewReplayChooser replays one recorded choice vector.
func NewReplayChooser(vec []int) *Chooser { return &Chooser{prefix: vec} }

// ExploreOpts bounds the exploration.
type ExploreOpts struct {
	// Bound is the maximal number of non-zero choices (deviations) per
	// execution; <0 = unbounded.
	Bound int
	// ShardDepth: executions whose choice vector has at least this many
	// points are owned by the shard selected by the hash of the first
	// ShardDepth choices; whole subtrees are skipped by the other shards.
	// 0 = every shard walks the whole tree (body decides with c.Next()).
	ShardDepth int
	// MaxExecutions caps the search (0 = none); hitting it marks the run as
	// not exhaustive.
	MaxExecutions int64
}

// Explore runs body once for every choice vector inside the bounds (depth
// first, lexicographic order, default choice 0 first). body receives owned =
// whether this shard is responsible for checking that execution.
func Explore(c *Ctx, o ExploreOpts, body func(ch *Chooser, owned bool)) (executions int64) {
	stack := [][]int{{}}
	for len(stack) > 0 {
		prefix := stack[len(stack)-1]
		stack = stack[:len(stack)-1]

		owned := true
		if o.ShardDepth > 0 {
			if len(prefix) >= o.ShardDepth {
				owned = c.Owns(fmt.Sprint(prefix[:o.ShardDepth]))
				if !owned {
					continue // some other shard explores this whole subtree
				}
			} else {
				owned = c.Owns(fmt.Sprint(prefix))
			}
		}

		ch := &Chooser{prefix: prefix}
		body(ch, owned)
		if len(ch.trace) < len(prefix) {
			panic(fmt.Sprintf("replay divergence: prefix %v not consumed (execution made %d choices)", prefix, len(ch.trace)))
		}
		executions++
		if o.MaxExecutions > 0 && executions >= o.MaxExecutions {
			c.Cap(fmt.Sprintf("explorer stopped after %d executions", executions))
			return
		}

		dev := 0
		for _, v := range ch.trace[:len(prefix)] {
			if v != 0 {
				dev++
			}
		}
		// count deviations inside the default suffix: always zero
		type alt struct{ i, v int }
		var alts []alt
		for i := len(prefix); i < len(ch.trace); i++ {
			if o.Bound >= 0 && dev+1 > o.Bound {
				break
			}
			for v := 1; v < ch.widths[i]; v++ {
				alts = append(alts, alt{i, v})
			}
		}
		for k := len(alts) - 1; k >= 0; k-- {
			a := alts[k]
			np := make([]int, a.i+1)
			copy(np, ch.trace[:a.i])
			np[a.i] = a.v
			stack = append(stack, np)
		}
	}
	return
}
