package c03

import (
	"bytes"
	"fmt"
	"reflect"
	"sort"
	"strings"

	"github.com/octohelm/gengo/pkg/gengo"
	"github.com/octohelm/gengo/pkg/gengo/snippet"
	"github.com/octohelm/gengo/pkg/namer"

	"verif/mc/core"
	depv1 "verif/mc/props/c03/xp/dep.v1"
	"verif/mc/props/c03/xp/glist"
)

const (
	glistPath = "verif/mc/props/c03/xp/glist"
	depv1Path = "verif/mc/props/c03/xp/dep.v1"
)

// checkExposeOf: the reflect-based reference kinds (PkgExposeOf(value), PkgExposeFor[T]()) for plain types and
// for instantiated generics whose type arguments come from a package with a dotted last path element: the
// rendered text is the (qualified) bare name, and the tracker holds exactly the package of that name.
func checkExposeOf(c *core.Ctx) {
	type ref struct {
		desc string
		sn   func() snippet.Snippet
		pkg  string
		name string
	}
	refs := []ref{
		{"PkgExposeOf(glist.Plain{})", func() snippet.Snippet { return snippet.PkgExposeOf(glist.Plain{}) }, glistPath, "Plain"},
		{"PkgExposeOf(glist.List[int]{})", func() snippet.Snippet { return snippet.PkgExposeOf(glist.List[int]{}) }, glistPath, "List"},
		{"PkgExposeOf(glist.List[dep.v1.Item]{})", func() snippet.Snippet { return snippet.PkgExposeOf(glist.List[depv1.Item]{}) }, glistPath, "List"},
		{"PkgExposeOf(&glist.Pair[dep.v1.Item, glist.List[dep.v1.Item]]{})", func() snippet.Snippet {
			return snippet.PkgExposeOf(&glist.Pair[depv1.Item, glist.List[depv1.Item]]{})
		}, glistPath, "Pair"},
		{"PkgExposeFor[glist.List[dep.v1.Item]]()", func() snippet.Snippet { return snippet.PkgExposeFor[glist.List[depv1.Item]]() }, glistPath, "List"},
		{"PkgExposeFor[glist.List[dep.v1.Item]](\"Other\")", func() snippet.Snippet { return snippet.PkgExposeFor[glist.List[depv1.Item]]("Other") }, glistPath, "Other"},
		{"PkgExposeOf(dep.v1.Item{})", func() snippet.Snippet { return snippet.PkgExposeOf(depv1.Item{}) }, depv1Path, "Item"},
		{"PkgExposeFor[dep.v1.Item]()", func() snippet.Snippet { return snippet.PkgExposeFor[depv1.Item]() }, depv1Path, "Item"},
		// snippet.ID of reflect types that hold such an instantiation BELOW a pointer, slice, map, array or struct
		// field (name "": only what C03 says about the import table is judged, the text is C11's business)
		{"ID(reflect []glist.List[dep.v1.Item])", func() snippet.Snippet { return snippet.ID(reflect.TypeOf([]glist.List[depv1.Item]{})) }, glistPath, ""},
		{"ID(reflect *glist.List[dep.v1.Item])", func() snippet.Snippet { return snippet.ID(reflect.TypeOf(&glist.List[depv1.Item]{})) }, glistPath, ""},
		{"ID(reflect map[string]glist.List[dep.v1.Item])", func() snippet.Snippet { return snippet.ID(reflect.TypeOf(map[string]glist.List[depv1.Item]{})) }, glistPath, ""},
		{"ID(reflect [2]*glist.Pair[dep.v1.Item, int])", func() snippet.Snippet { return snippet.ID(reflect.TypeOf([2]*glist.Pair[depv1.Item, int]{})) }, glistPath, ""},
		{"ID(reflect struct{ F glist.List[dep.v1.Item] })", func() snippet.Snippet {
			return snippet.ID(reflect.TypeOf(struct{ F glist.List[depv1.Item] }{}))
		}, glistPath, ""},
		{"ID(reflect glist.List[dep.v1.Item])", func() snippet.Snippet { return snippet.ID(reflect.TypeOf(glist.List[depv1.Item]{})) }, glistPath, ""},
	}
	for _, target := range []string{"x.io/elsewhere", glistPath, depv1Path} {
		for _, r := range refs {
			c.Eval(1)
			c.Trans(1)
			cs := Case{Expose: r.desc, ExposeTarget: target}
			tk := namer.NewDefaultImportTracker()
			buf := bytes.NewBuffer(nil)
			var pan any
			func() {
				defer func() { pan = recover() }()
				gengo.NewSnippetWriter(buf, namer.NameSystems{"raw": namer.NewRawNamer(target, tk)}).Render(r.sn())
			}()
			if pan != nil {
				c.Fail("", cs, "%s rendered into a file of %s panicked: %v", r.desc, target, pan)
				continue
			}
			imports := tk.Imports()
			var got []string
			for p, n := range imports {
				got = append(got, n+"="+p)
			}
			sort.Strings(got)
			// what C03 asks of the import block: only packages that exist, never the file's own package, every
			// registered name used by the text, the name of the reference bound to its package. (Whether the
			// type arguments of an instantiation are part of the text is not C03's business.)
			text := strings.TrimSpace(buf.String())
			bad := false
			seen := map[string]string{}
			for p, n := range imports {
				switch {
				case p != glistPath && p != depv1Path:
					c.Fail("", cs, "%s rendered into a file of %s registered the import %s %q, which is not a package (text %q)", r.desc, target, n, p, text)
					bad = true
				case p == target:
					c.Fail("", cs, "%s rendered into a file of %s makes the file import its own package (imports %v)", r.desc, target, got)
					bad = true
				case !validName(n) || seen[n] != "":
					c.Fail("", cs, "%s rendered into a file of %s: import name %q of %q is invalid or bound twice (imports %v)", r.desc, target, n, p, got)
					bad = true
				case !strings.Contains(text, n+"."):
					c.Fail("", cs, "%s rendered into a file of %s as %q registered the import %s %q, which the text does not use", r.desc, target, text, n, p)
					bad = true
				}
				seen[n] = p
			}
			if bad {
				continue
			}
			if r.name == "" {
				c.State("exposeOf/composite")
				c.Nontrivial("exposeOf|" + r.desc + "|" + target)
				continue
			}
			want := r.name
			if r.pkg != target {
				n, ok := imports[r.pkg]
				if !ok {
					c.Fail("", cs, "%s rendered into a file of %s as %q: package %s is not imported (imports %v)", r.desc, target, text, r.pkg, got)
					continue
				}
				want = n + "." + r.name
			}
			if !strings.HasPrefix(text, want) || (len(text) > len(want) && text[len(want)] != '[') {
				c.Fail("", cs, "%s rendered into a file of %s as %q, want %q (optionally followed by type arguments; imports %v)", r.desc, target, text, want, got)
			}
			c.State(fmt.Sprintf("exposeOf/%v", r.pkg == target))
			c.Nontrivial("exposeOf|" + r.desc + "|" + target)
		}
	}
}
