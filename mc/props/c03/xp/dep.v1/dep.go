// Package dep lives in a directory whose name contains a dot (gopkg.in/yaml.v3 style).
package dep

type Item struct{ N int }
