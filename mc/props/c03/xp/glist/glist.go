// Package glist holds generic types for the reflect-based reference kinds of C03.
package glist

type List[T any] struct{ Items []T }

type Pair[K comparable, V any] struct {
	K K
	V V
}

type Plain struct{ N int }
