// Package c03: the import block is exactly the set of referenced packages under
// unique valid names. Level 1: every path of <=3 segments over a 15-segment
// alphabet. Level 2: explicit-state search over sequences of reference
// operations (all reference kinds) on a collision alphabet of import paths,
// invariants checked in every state. Level 3: the same at file level through
// the real pipeline.
package c03

import (
	"bytes"
	"encoding/json"
	"fmt"
	"go/ast"
	"go/parser"
	"go/token"
	"go/types"
	"os"
	"regexp"
	"sort"
	"strconv"
	"strings"

	"github.com/octohelm/gengo/pkg/gengo"
	"github.com/octohelm/gengo/pkg/gengo/snippet"
	"github.com/octohelm/gengo/pkg/namer"
	gengotypes "github.com/octohelm/gengo/pkg/types"
	"verif/mc/core"
	"verif/mc/pipe"
)

const target = "x.io/target"

func try(f func()) (p any) {
	defer func() { p = recover() }()
	f()
	return nil
}

// ---------------------------------------------------------------- level 1: single paths

var segs = []string{"a", "b", "ab", "go", "type", "v1", "v2", "apis", "domain", "3d", "fmt", "a-b", "a--b", "_x", "yaml.v3"}
var segsThorough = []string{".x", "é", "func", "range", "template", "A", "x_y"}

type Case struct {
	Path     string  `json:"path,omitempty"`
	Ops      []int   `json:"reference_ops,omitempty"`
	File     []int   `json:"file_level_paths,omitempty"`
	Sessions [][]int `json:"tracker_sessions_in_one_fresh_process,omitempty"`
	// reflect-based references (PkgExposeOf / PkgExposeFor)
	Expose       string `json:"reflect_based_reference,omitempty"`
	ExposeTarget string `json:"rendered_into_a_file_of,omitempty"`
	// a reference rendered into another writer from inside a rendering
	Nested *NestedCase `json:"nested_rendering,omitempty"`
}

func validName(n string) bool { return token.IsIdentifier(n) && n != "_" }

func checkPath(c *core.Ctx, path string) {
	c.Eval(1)
	c.Trans(1)
	cs := Case{Path: path}
	buf := bytes.NewBuffer(nil)
	tk := namer.NewDefaultImportTracker()
	w := gengo.NewSnippetWriter(buf, namer.NameSystems{"raw": namer.NewRawNamer(target, tk)})
	if p := try(func() { w.Render(snippet.ID(gengotypes.Ref(path, "X"))) }); p != nil {
		c.Fail(classOfPath(path, ""), cs, "referencing %q panicked: %v", path, p)
		c.State("panic")
		return
	}
	imports := tk.Imports()
	name, ok := imports[path]
	c.State(fmt.Sprintf("ok=%v valid=%v", ok, validName(name)))
	if strings.Count(path, "/") >= 1 {
		c.Nontrivial(path)
	}
	if !ok || len(imports) != 1 {
		c.Fail(classOfPath(path, name), cs, "referencing %q: Imports() = %v, want exactly that path", path, imports)
		return
	}
	if !validName(name) {
		c.Fail(classOfPath(path, name), cs, "import path %q is bound to %q, which is not a valid non-keyword identifier", path, name)
		return
	}
	if got := buf.String(); got != name+".X" {
		c.Fail("", cs, "reference to %q rendered %q, want %q", path, got, name+".X")
	}
	if p, ok := tk.PathOf(name); !ok || p != path {
		c.Fail("", cs, "PathOf(%q) = %q,%v, want %q", name, p, ok, path)
	}
	if tk.LocalNameOf(path) != name {
		c.Fail("", cs, "LocalNameOf(%q) = %q, Imports() says %q", path, tk.LocalNameOf(path), name)
	}
}

// recorded defect classes for single paths
func classOfPath(path, name string) string {
	return "C03-invalid-or-missing-import-name"
}

// ---------------------------------------------------------------- level 2: explicit-state search

var cpaths = []string{
	"a/b", "c/a/b", "ab", "b", "x/b", "y/x/b", "fmt", "foo/fmt", "x/v2", "x/b/v2",
	"k8s.io/api/core/v1", "k8s.io/apis/core/v1", "x/domain/core/v1", "github.com/json-iterator/go",
	"y/go", "a/3d", "b/3d", "x/ty-pe", "x/type",
}

var itemQualifier = regexp.MustCompile(`([A-Za-z_][A-Za-z_0-9]*)\.Item\b`)

type op struct {
	kind  string
	paths []string // package paths referenced, in the order they appear in the text
	make  func() snippet.Snippet
	text  func(name func(string) string) string
}

func named(path, pkgName, tn string) *types.Named {
	pkg := types.NewPackage(path, pkgName)
	return types.NewNamed(types.NewTypeName(token.NoPos, pkg, tn, nil), types.Typ[types.Int], nil)
}

func buildOps() []op {
	var ops []op
	for _, p := range cpaths {
		p := p
		ops = append(ops, op{"ref", []string{p}, func() snippet.Snippet { return snippet.ID(gengotypes.Ref(p, "X")) },
			func(n func(string) string) string { return n(p) + ".X" }})
	}
	for _, p := range []string{"a/b", "c/a/b", "foo/fmt", "github.com/json-iterator/go"} {
		p := p
		ops = append(ops, op{"string", []string{p}, func() snippet.Snippet { return snippet.ID(p + ".Y") },
			func(n func(string) string) string { return n(p) + ".Y" }})
		ops = append(ops, op{"expose", []string{p}, func() snippet.Snippet { return snippet.PkgExpose(p, "Z") },
			func(n func(string) string) string { return n(p) + ".Z" }})
	}
	// (the last three have single-segment argument paths: no '/' anywhere in the argument list)
	for _, pr := range [][2]string{{"a/b", "c/a/b"}, {"ab", "a/b"}, {"x/v2", "x/b/v2"}, {"fmt", "foo/fmt"}, {"b", target}, {"a/b", "fmt"}, {"x/b", "ab"}, {"fmt", "b"}} {
		p, q := pr[0], pr[1]
		ops = append(ops, op{"generic", []string{p, q}, func() snippet.Snippet { return snippet.ID(p + ".G[" + q + ".T,int]") },
			func(n func(string) string) string {
				arg := n(q) + ".T"
				if q == target {
					arg = "T"
				}
				return n(p) + ".G[" + arg + ",int]"
			}})
	}
	// instantiations whose package-qualified argument comes AFTER an unqualified one, or after another
	// qualified one, or nested behind a leaf
	for _, pr := range [][2]string{{"a/b", "x/b"}, {"fmt", "foo/fmt"}, {"b", "c/a/b"}} {
		p, q := pr[0], pr[1]
		ops = append(ops, op{"generic-late-arg", []string{p, q}, func() snippet.Snippet { return snippet.ID(p + ".G[string," + q + ".T]") },
			func(n func(string) string) string { return n(p) + ".G[string," + n(q) + ".T]" }})
		ops = append(ops, op{"generic-two-args", []string{p, p, q}, func() snippet.Snippet { return snippet.ID(p + ".G[" + p + ".K," + q + ".V]") },
			func(n func(string) string) string { return n(p) + ".G[" + n(p) + ".K," + n(q) + ".V]" }})
		ops = append(ops, op{"generic-nested-late", []string{p, p, q}, func() snippet.Snippet { return snippet.ID(p + ".G[int," + p + ".L[bool," + q + ".V]]") },
			func(n func(string) string) string { return n(p) + ".G[int," + n(p) + ".L[bool," + n(q) + ".V]]" }})
	}
	for _, pr := range [][2]string{{"a/b", "x/b"}, {"y/x/b", "b"}, {"k8s.io/api/core/v1", "k8s.io/apis/core/v1"}} {
		p, q := pr[0], pr[1]
		ops = append(ops, op{"typelit", []string{p, q}, func() snippet.Snippet {
			k := named(p, "pk", "K")
			v := named(q, "pv", "V")
			return snippet.ID(types.Type(types.NewMap(k, types.NewSlice(types.NewPointer(v)))))
		}, func(n func(string) string) string { return "map[" + n(p) + ".K][]*" + n(q) + ".V" }})
	}
	// a VALUE literal (reflect route) holding types that share package name and type name across two
	// packages; its exact layout is C10's business: here only the qualifiers in front of ".Item" are judged
	ops = append(ops, op{"value-twins", []string{"verif/mc/pipe", "verif/mc/pipe/cla/model", "verif/mc/pipe/clb/model"},
		func() snippet.Snippet { return snippet.Value(pipe.TwinsValue()) }, nil})
	ops = append(ops, op{"own", nil, func() snippet.Snippet { return snippet.ID(gengotypes.Ref(target, "Own")) },
		func(n func(string) string) string { return "Own" }})
	ops = append(ops, op{"own-typelit", nil, func() snippet.Snippet {
		return snippet.ID(types.Type(types.NewSlice(named(target, "target", "Own"))))
	}, func(n func(string) string) string { return "[]Own" }})
	return ops
}

var allOps = buildOps()

func opNames(seq []int) []string {
	var out []string
	for _, i := range seq {
		out = append(out, allOps[i].kind+":"+strings.Join(allOps[i].paths, "+"))
	}
	return out
}

// replaySeq runs the op sequence on a fresh tracker and checks the invariants after every op.
// It returns the canonical state key of the final state.
func replaySeq(c *core.Ctx, seq []int, report bool) (key string, ok bool) {
	return replaySeqAs(c, seq, report, Case{Ops: seq}, "")
}

func replaySeqAs(c *core.Ctx, seq []int, report bool, cs Case, prefix string) (key string, ok bool) {
	tk := namer.NewDefaultImportTracker()
	nm := namer.NewRawNamer(target, tk)
	referenced := map[string]bool{}
	firstName := map[string]string{}
	fail := func(class, format string, a ...any) {
		if report {
			c.Fail(class, cs, prefix+"ops %v: "+format, append([]any{opNames(seq)}, a...)...)
		}
		ok = false
	}
	ok = true
	for step, oi := range seq {
		o := allOps[oi]
		buf := bytes.NewBuffer(nil)
		w := gengo.NewSnippetWriter(buf, namer.NameSystems{"raw": nm})
		if p := try(func() { w.Render(o.make()) }); p != nil {
			fail("", "op %d panicked: %v", step, p)
			return "", false
		}
		c.Trans(1)
		for _, p := range o.paths {
			if p != target {
				referenced[p] = true
			}
		}
		imports := tk.Imports()
		// invariants in every state
		names := map[string]string{}
		for p, n := range imports {
			if !referenced[p] {
				fail("", "after op %d the tracker holds %q=%q which was never referenced", step, p, n)
			}
			if !validName(n) {
				fail("C03-invalid-or-missing-import-name", "after op %d path %q is bound to the invalid name %q", step, p, n)
			}
			if o2, dup := names[n]; dup {
				fail("", "after op %d paths %q and %q share the name %q", step, p, o2, n)
			}
			names[n] = p
			if back, ok := tk.PathOf(n); !ok || back != p {
				fail("", "after op %d PathOf(%q) = %q,%v but Imports() binds it to %q", step, n, back, ok, p)
			}
			if tk.LocalNameOf(p) != n {
				fail("", "after op %d LocalNameOf(%q) = %q but Imports() says %q", step, p, tk.LocalNameOf(p), n)
			}
			if f, seen := firstName[p]; seen && f != n {
				fail("", "after op %d path %q changed its name from %q to %q", step, p, f, n)
			}
			firstName[p] = n
		}
		for p := range referenced {
			if _, ok := imports[p]; !ok {
				fail("C03-invalid-or-missing-import-name", "after op %d the referenced path %q is missing from Imports() %v (rendered %q)", step, p, imports, buf.String())
			}
		}
		if _, has := imports[target]; has {
			fail("", "after op %d the file's own package is registered as an import", step)
		}
		if o.text == nil {
			quals := map[string]int{}
			for _, m := range itemQualifier.FindAllStringSubmatch(buf.String(), -1) {
				quals[m[1]]++
			}
			na, nb := imports["verif/mc/pipe/cla/model"], imports["verif/mc/pipe/clb/model"]
			if len(quals) != 2 || quals[na] == 0 || quals[na] != quals[nb] {
				fail("", "op %d rendered %q: the qualifiers in front of .Item are %v, want %q and %q equally often (names %v)", step, buf.String(), quals, na, nb, imports)
			}
		} else if want := o.text(func(p string) string { return imports[p] }); buf.String() != want && ok {
			fail("", "op %d rendered %q, want %q (names %v)", step, buf.String(), want, imports)
		}
		if !ok {
			return "", false
		}
	}
	imports := tk.Imports()
	var parts []string
	for p, n := range imports {
		parts = append(parts, p+"="+n)
	}
	sort.Strings(parts)
	return strings.Join(parts, ";"), true
}

func bfs(c *core.Ctx, depth int) {
	// level-synchronous BFS; every shard walks the frontier (cheap), successor computation is split
	type node struct{ seq []int }
	seen := map[string]bool{"": true}
	frontier := []node{{nil}}
	c.State("")
	for d := 1; d <= depth; d++ {
		var next []node
		for _, n := range frontier {
			for oi := range allOps {
				seq := append(append([]int{}, n.seq...), oi)
				owned := c.Next()
				key, ok := replaySeq(c, seq, owned)
				if owned {
					c.Eval(1)
					c.Trace(1)
					if d >= 2 {
						c.Nontrivial(fmt.Sprint(seq))
					}
				}
				if !ok {
					continue // violating states are reported, not expanded
				}
				if !seen[key] {
					seen[key] = true
					if owned {
						c.State(key)
					}
					next = append(next, node{seq})
				}
			}
		}
		frontier = next
		if c.Shard == 0 {
			c.Count(fmt.Sprintf("bfs_new_states_depth_%d", d), len(next))
		}
	}
}

// ---------------------------------------------------------------- level 2b: several trackers in one process
//
// Every generated file gets its own tracker, but they all live in one process:
// histories of tracker sessions are executed in a fresh child process each, with
// the per-state invariants checked in every session.

func opIndex(kind string, paths ...string) int {
	for i, o := range allOps {
		if o.kind == kind && strings.Join(o.paths, "+") == strings.Join(paths, "+") {
			return i
		}
	}
	panic("no such op " + kind + fmt.Sprint(paths))
}

func sessionAlphabet() [][]int {
	ab, cab, abab := opIndex("ref", "a/b"), opIndex("ref", "c/a/b"), opIndex("ref", "ab")
	return [][]int{
		{ab}, {cab}, {ab, cab}, {cab, ab}, {opIndex("generic", "a/b", "c/a/b")}, {abab, ab},
		{opIndex("ref", "fmt"), opIndex("ref", "foo/fmt")}, {opIndex("ref", "foo/fmt")},
	}
}

func sessWorker(args []string) int {
	var cs Case
	if err := json.NewDecoder(os.Stdin).Decode(&cs); err != nil {
		return 2
	}
	c := core.NewWorkerCtx("C03", "quick")
	for i, sess := range cs.Sessions {
		sub := Case{Sessions: cs.Sessions[:i+1]}
		if _, ok := replaySeqAs(c, sess, true, sub, fmt.Sprintf("session %d of %d in one process: ", i+1, len(cs.Sessions))); !ok {
			break
		}
	}
	if err := c.WriteResult(os.Stdout); err != nil {
		return 2
	}
	return 0
}

func checkSessions(c *core.Ctx, sessions [][]int) {
	c.Eval(1)
	c.Trace(1)
	in, _ := json.Marshal(Case{Sessions: sessions})
	out, errb, err := core.RunWorker("c03sess", in)
	if err != nil {
		c.Internal("session worker: %v %s", err, errb)
		return
	}
	if err := c.Absorb(out); err != nil {
		c.Internal("session worker output: %v", err)
	}
	if len(sessions) > 1 {
		c.Nontrivial(fmt.Sprint("sessions", sessions))
	}
}

// ---------------------------------------------------------------- level 3: file level

const skippedPath = "only.io/skipped/ref"
const chainedPath = "only.io/chained/ref"

// mismatchPath is a package whose clause says `package restclient` (the directory says client)
const mismatchPath = "x.io/test/lib/client"

func declaredName(path string) string {
	if path == mismatchPath {
		return "restclient"
	}
	if n := path[strings.LastIndex(path, "/")+1:]; validName(n) && !token.IsKeyword(n) {
		return n
	}
	return ""
}

func checkFile(c *core.Ctx, seqs [][]int) {
	dir := pipe.TempDir("c03")
	defer os.RemoveAll(dir)
	t := pipe.Tree{"go.mod": pipe.GoMod("x.io/test", "1.24"), "lib/client/client.go": "package restclient\n\ntype X struct{}\n"}
	byType := map[string]pipe.Action{}
	for i, seq := range seqs {
		name := fmt.Sprintf("k%04d", i)
		t["p/"+name+"/"+name+".go"] = "package " + name + "\n\ntype T struct{}\n\ntype U struct{}\n"
		var imps []string
		for _, pi := range seq {
			imps = append(imps, cpaths[pi])
		}
		// one more package whose package clause differs from its directory name (an import spec without a
		// name would bind the clause name, not the name the body uses)
		imps = append(imps, mismatchPath)
		// one more package is referred to only at the root of longer selector chains
		byType["x.io/test/p/"+name+".T"] = pipe.Action{Imports: imps, ChainImports: []string{chainedPath}}
		// a second type refers to one more package and then returns ErrSkip: whether its text is kept is
		// not C03's business, but the import block must agree with whatever ends up in the file
		byType["x.io/test/p/"+name+".U"] = pipe.Action{Imports: []string{skippedPath}, Ret: "skip"}
	}
	if err := pipe.WriteTree(dir, t); err != nil {
		c.Internal("%v", err)
		return
	}
	o := pipe.Exec(pipe.Spec{Dir: dir, Entrypoints: []string{"./p/..."}, Globals: map[string][]string{"gengo:g1": {"true"}},
		Gens: []pipe.GenScript{{Name: "g1", ByType: byType}}})
	c.Trans(1)
	if !o.OK() {
		// find the offending package by running each alone is expensive; report the batch
		c.Fail("C03-invalid-or-missing-import-name", Case{File: seqs[0]}, "file-level batch failed: err=%q panic=%q", o.Err, o.Panic)
		return
	}
	for i, seq := range seqs {
		c.Eval(1)
		c.Trace(1)
		cs := Case{File: seq}
		name := fmt.Sprintf("k%04d", i)
		src, err := os.ReadFile(dir + "/p/" + name + "/zz_generated.g1.go")
		if err != nil {
			c.Fail("", cs, "no generated file for paths %v", seq)
			continue
		}
		fset := token.NewFileSet()
		f, err := parser.ParseFile(fset, "gen.go", src, 0)
		if err != nil {
			c.Fail("", cs, "generated file does not parse: %v", err)
			continue
		}
		specs := map[string]string{} // name -> path
		for _, im := range f.Imports {
			p, _ := strconv.Unquote(im.Path.Value)
			// a spec without a name binds the name of the package clause: known to the harness for the
			// packages it made up (the last path element where that is an identifier), unknown otherwise
			n := declaredName(p)
			if im.Name != nil {
				n = im.Name.Name
			}
			if !validName(n) {
				c.Fail("C03-invalid-or-missing-import-name", cs, "import %q has the invalid name %q", p, n)
			}
			if o, dup := specs[n]; dup {
				c.Fail("", cs, "imports %q and %q share the name %q", p, o, n)
			}
			specs[n] = p
		}
		used := map[string]bool{}
		keptSkipped := false
		chainedSeen := false
		ast.Inspect(f, func(n ast.Node) bool {
			vs, ok := n.(*ast.ValueSpec)
			if !ok || len(vs.Names) != 1 {
				return true
			}
			parts := strings.Split(vs.Names[0].Name, "_") // _<i>_T_g1
			if len(parts) < 2 {
				return true
			}
			idx, err := strconv.Atoi(parts[1])
			if err != nil || idx > len(seq) {
				return true
			}
			sel, ok := vs.Type.(*ast.SelectorExpr)
			if !ok {
				c.Fail("", cs, "reference %d is not qualified: %s", idx, src)
				return true
			}
			q := sel.X.(*ast.Ident).Name
			used[q] = true
			wantPath := mismatchPath
			if idx < len(seq) {
				wantPath = cpaths[seq[idx]]
			}
			if len(parts) > 2 && parts[2] == "U" {
				wantPath = skippedPath
				keptSkipped = true
			}
			if specs[q] != wantPath {
				c.Fail("", cs, "reference %d to %q uses qualifier %q, which the import block binds to %q", idx, wantPath, q, specs[q])
			}
			return true
		})
		// roots of selector chains (pkg.V.Field.Sub, pkg.F().Method().Name)
		ast.Inspect(f, func(n ast.Node) bool {
			sel, ok := n.(*ast.SelectorExpr)
			if !ok {
				return true
			}
			var x ast.Expr = sel
			for {
				switch y := x.(type) {
				case *ast.SelectorExpr:
					x = y.X
					continue
				case *ast.CallExpr:
					x = y.Fun
					continue
				}
				break
			}
			if id, ok := x.(*ast.Ident); ok && specs[id.Name] == chainedPath {
				used[id.Name] = true
				chainedSeen = true
			}
			return true
		})
		if !chainedSeen {
			c.Fail("", cs, "no import is bound to %q although the file refers to it through selector chains:\n%s", chainedPath, src)
		}
		for n, p := range specs {
			if !used[n] {
				c.Fail("", cs, "import %q (%s) is unused", p, n)
			}
		}
		want := map[string]bool{}
		for _, pi := range seq {
			want[cpaths[pi]] = true
		}
		if keptSkipped {
			want[skippedPath] = true
		}
		want[chainedPath] = true
		want[mismatchPath] = true
		if len(specs) != len(want) {
			c.Fail("", cs, "import block has %d entries, %d distinct packages were referenced: %v", len(specs), len(want), specs)
		}
		c.State(fmt.Sprintf("file/%d/%d", len(seq), len(specs)))
		if len(want) > 1 {
			c.Nontrivial(fmt.Sprint("file", seq))
		}
	}
}

// ---------------------------------------------------------------- driver

func run(c *core.Ctx) {
	alpha := segs
	if c.Thorough() {
		alpha = append(append([]string{}, segs...), segsThorough...)
	}
	c.Bound("segment_alphabet", alpha)
	c.Bound("max_segments", 3)
	if c.Next() {
		checkExposeOf(c)
	}
	if c.Next() {
		checkNested(c)
	}
	c.Bound("reflect_based_references", "PkgExposeOf / PkgExposeFor of a plain type, of generic instantiations whose arguments come from a package with a dotted directory name, and of a type of that package; rendered into a file of another package, of the generic's package and of the dotted package")
	core.Explore(c, core.ExploreOpts{Bound: -1}, func(ch *core.Chooser, _ bool) {
		var parts []string
		for i := 0; i < 3; i++ {
			k := ch.Choose(len(alpha) + 1)
			if k == 0 {
				break
			}
			parts = append(parts, alpha[k-1])
		}
		if len(parts) == 0 || !c.Next() {
			return
		}
		checkPath(c, strings.Join(parts, "/"))
	})
	depth := c.Pick(3, 5)
	c.Bound("collision_paths", cpaths)
	c.Bound("reference_ops", len(allOps))
	c.Bound("bfs_depth", depth)
	bfs(c, depth)
	c.Sample(map[string]any{"ops": opNames([]int{0, 1, 2})})
	// several trackers in one fresh process: all histories of <=3 (quick 2..3) sessions
	sa := sessionAlphabet()
	c.Bound("tracker_sessions_alphabet", len(sa))
	c.Bound("tracker_session_history_len", 3)
	for _, a := range sa {
		for _, b := range sa {
			if c.Next() {
				checkSessions(c, [][]int{a, b})
			}
			for _, d := range sa {
				if c.Next() {
					checkSessions(c, [][]int{a, b, d})
				}
			}
		}
	}
	// file level: all sequences of <=3 (quick 2) collision paths
	fl := c.Pick(2, 3)
	c.Bound("file_level_max_refs", fl)
	var all [][]int
	core.Explore(c, core.ExploreOpts{Bound: -1}, func(ch *core.Chooser, _ bool) {
		var seq []int
		for i := 0; i < fl; i++ {
			k := ch.Choose(len(cpaths) + 1)
			if k == 0 {
				break
			}
			seq = append(seq, k-1)
		}
		if len(seq) > 0 {
			all = append(all, seq)
		}
	})
	const batch = 300
	for i := 0; i < len(all); i += batch {
		if !c.Next() {
			continue
		}
		j := i + batch
		if j > len(all) {
			j = len(all)
		}
		checkFile(c, all[i:j])
	}
}

func replay(c *core.Ctx, raw json.RawMessage) {
	var cs Case
	if err := json.Unmarshal(raw, &cs); err != nil {
		c.Internal("bad case: %v", err)
		return
	}
	switch {
	case cs.Nested != nil:
		checkNestedOne(c, *cs.Nested)
	case cs.Expose != "":
		checkExposeOf(c)
	case len(cs.Sessions) > 0:
		checkSessions(c, cs.Sessions)
	case cs.Path != "":
		checkPath(c, cs.Path)
	case len(cs.File) > 0:
		checkFile(c, [][]int{cs.File})
	default:
		replaySeq(c, cs.Ops, true)
	}
}

func init() {
	core.RegisterWorker("c03sess", sessWorker)
	core.Register(&core.Prop{
		ID: "C03", Level: "model_checking", Run: run, Replay: replay,
		Rule: "level 1: every import path of <=3 segments over the segment alphabet (keywords, digit-initial, vN, apis/domain, punctuation, underscore); level 2: breadth-first search over sequences of reference operations (Ref, string ID, PkgExpose, generic instantiation with a nested path, type literal via go/types, a value literal holding same-named types of two same-named packages, own package) on 19 colliding paths (incl. pairs whose common candidate is a keyword or starts with a digit) through the real rawNamer+SnippetWriter, states deduplicated by the tracker's path->name map, the bijection/validity/none-missing/none-unused/stable-name/rendered-text invariants checked after every operation; level 2b: every history of 2 and 3 tracker sessions (8-session alphabet of colliding references) inside one fresh child process, same invariants in every session; level 3: every sequence of <=N paths rendered through the real pipeline (next to references to one more package only at the root of longer selector chains, and next to a type that refers to yet another package and then returns ErrSkip) and the written file parsed (import specs == qualifiers used, each resolving to the rendered path). Non-trivial = multi-segment paths / sequences >=2; states = distinct tracker maps",
		Assumptions: []string{
			"'/vendor/' paths are outside the alphabet",
			"two tracker states with equal path->name maps have equal futures",
		},
	})
}
