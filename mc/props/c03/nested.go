package c03

// Nested rendering: while writer A renders a template, one of its arguments renders a reference into ANOTHER writer B
// (its own buffer, tracker and target package) - a generator that emits a companion file, a snippet that pre-renders
// something into a scratch buffer. Every writer's import table must hold exactly what ITS body refers to.

import (
	"bytes"
	"context"
	"fmt"
	"iter"
	"sort"
	"strings"

	"github.com/octohelm/gengo/pkg/gengo"
	"github.com/octohelm/gengo/pkg/gengo/snippet"
	"github.com/octohelm/gengo/pkg/namer"

	"verif/mc/core"
)

type NestedCase struct {
	X, Inner, Y string
	InnerTarget string
}

var nestedPaths = []string{"a/b", "c/a/b", "x.io/u/v", "t/own", "t/other"}

func keysOf(m map[string]string) []string {
	var out []string
	for k := range m {
		out = append(out, k)
	}
	sort.Strings(out)
	return out
}

func checkNestedOne(c *core.Ctx, nc NestedCase) {
	cs := Case{Nested: &nc}
	c.Eval(1)
	c.Trans(2)
	const own = "t/own"
	tkA, tkB := namer.NewDefaultImportTracker(), namer.NewDefaultImportTracker()
	bufA, bufB := bytes.NewBuffer(nil), bytes.NewBuffer(nil)
	wA := gengo.NewSnippetWriter(bufA, namer.NameSystems{"raw": namer.NewRawNamer(own, tkA)})
	inner := snippet.Func(func(ctx context.Context) iter.Seq[string] {
		return func(yield func(string) bool) {
			wB := gengo.NewSnippetWriter(bufB, namer.NameSystems{"raw": namer.NewRawNamer(nc.InnerTarget, tkB)})
			wB.Render(snippet.ID(nc.Inner + ".I"))
		}
	})
	if p := try(func() {
		wA.Render(snippet.T("@x|@f|@y", snippet.IDArg("x", nc.X+".X"), snippet.Arg("f", inner), snippet.IDArg("y", nc.Y+".Y")))
	}); p != nil {
		c.Fail("", cs, "nested rendering %+v panicked: %v", nc, p)
		return
	}
	want := func(target string, paths ...string) []string {
		set := map[string]bool{}
		for _, p := range paths {
			if p != target {
				set[p] = true
			}
		}
		var out []string
		for p := range set {
			out = append(out, p)
		}
		sort.Strings(out)
		return out
	}
	impA, impB := tkA.Imports(), tkB.Imports()
	if got, w := keysOf(impA), want(own, nc.X, nc.Y); fmt.Sprint(got) != fmt.Sprint(w) {
		c.Fail("", cs, "file of %s renders %s.X, then (inside a nested snippet) %s.I into a file of %s, then %s.Y: its import table holds %v, its body refers to %v (body %q; the other file's table: %v)", own, nc.X, nc.Inner, nc.InnerTarget, nc.Y, impA, w, bufA.String(), impB)
		return
	}
	if got, w := keysOf(impB), want(nc.InnerTarget, nc.Inner); fmt.Sprint(got) != fmt.Sprint(w) {
		c.Fail("", cs, "the file of %s that was written from inside a rendering of %s: its import table holds %v, its body refers to %v (body %q)", nc.InnerTarget, own, impB, w, bufB.String())
		return
	}
	q := func(target string, imp map[string]string, p, name string) string {
		if p == target {
			return name
		}
		return imp[p] + "." + name
	}
	if w := q(own, impA, nc.X, "X") + "||" + q(own, impA, nc.Y, "Y"); bufA.String() != w {
		c.Fail("", cs, "nested rendering %+v: the outer file reads %q, want %q", nc, bufA.String(), w)
	}
	if w := q(nc.InnerTarget, impB, nc.Inner, "I"); bufB.String() != w {
		c.Fail("", cs, "nested rendering %+v: the inner file reads %q, want %q", nc, bufB.String(), w)
	}
	c.State("nested/" + fmt.Sprint(nc.X == own, nc.Y == own, nc.Inner == nc.InnerTarget))
	c.Nontrivial("nested|" + strings.Join([]string{nc.X, nc.Inner, nc.Y, nc.InnerTarget}, "|"))
}

func checkNested(c *core.Ctx) {
	n := 0
	for _, it := range []string{"t/other", "a/b"} {
		for _, x := range nestedPaths {
			for _, in := range nestedPaths {
				for _, y := range nestedPaths {
					checkNestedOne(c, NestedCase{X: x, Inner: in, Y: y, InnerTarget: it})
					n++
				}
			}
		}
	}
	c.Bound("nested_renderings", fmt.Sprintf("%d: every (before, inside, after) triple over %v x inner target {t/other, a/b}; outer target t/own", n, nestedPaths))
}
