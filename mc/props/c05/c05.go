// Package c05: the output for a package does not depend on what else is
// generated in the same run. Every ordered selection of entrypoints out of
// four packages x All on/off is run on a pristine copy of the module with
// stateful generators (no New / custom New / pre-allocated reference state)
// and the repository's own stateful generators; each package's files are
// compared byte for byte with the files of the run that selects it alone.
package c05

import (
	"encoding/json"
	"fmt"
	"os"
	"sort"
	"strings"

	"verif/mc/core"
	"verif/mc/pipe"
)

const modPath = "x.io/test"

var pkgs = []string{"o", "p", "q", "r", "s"}

func module() pipe.Tree {
	return pipe.Tree{
		"go.mod": pipe.GoMod(modPath, "1.24"),
		// outputs of an earlier run in which the scripted generators still rendered something for package o:
		// stale now (they render nothing for o), to be removed whenever o is processed, alone or not
		"o/zz_generated.g1.go": "package o\n\nvar StaleG1 = 1\n",
		"o/zz_generated.g2.go": "package o\n\nvar StaleG2 = 1\n",
		"o/zz_generated.n1.go": "package o\n\nvar StaleN1 = 1\n",
		"o/o.go": `// Package o sorts first; the scripted stateful generators record its types but render nothing for it.
package o

// A has the same name as p.A and q.A.
type A struct {
	// V doc
	V int
}

// Sub too.
type Sub struct {
	W []int
}

type Z int

// Al is an alias declaration (generators that implement GenerateAliasType are called for it).
type Al = map[string]int
`,
		"lib/lib.go": `// Package lib holds generic types; it is never selected itself (processed only as a dependency under All).
package lib

// Box is generic.
type Box[T any] struct {
	V T
}

// Pair is generic.
type Pair[K any, V any] struct {
	K K
	V V
}
`,
		"p/p.go": `// Package p docs. It alone enables the generator "na" through a package-level tag.
// +gengo:na
package p

import "x.io/test/lib"

// A is documented.
type A struct {
	// Name of A
	Name string
	// Sub value
	Sub Sub
	Tags map[string]string
}

// Sub is a dependency of A.
type Sub struct {
	// X values
	X []int
}

type Named map[string]string

type Z int

// methods of A with value and pointer receivers, interleaved (r.R and s.S hold an A: generators ask about its methods)
func (a *A) Reset()        {}
func (a A) IsZero() bool   { return a.Name == "" }
func (a *A) Grow(n int)    {}
func (a A) Len() int       { return len(a.Tags) }
func (a *A) Flush() error  { return nil }
func (a A) String() string { return a.Name }
func (a *A) Shrink()       {}
func (a A) Kind() string   { return "a" }

// Holder has a field of a generic type of another package, instantiated with a type of THIS package.
type Holder struct {
	B lib.Box[Sub]
}

// Al is an alias declaration (generators that implement GenerateAliasType are called for it).
type Al = map[string]int

//line /shared/templates/model.tmpl:40
// Tpl was rendered from a shared template; this is the doc it has in package p.
// +origin=p
type Tpl struct{ InP int }
`,
		"q/q.go": `// Package q switches the generator n1 off for itself through a package-level tag (later packages keep it).
// +gengo:n1=false
package q

// A has the same name as p.A.
type A struct {
	// Other field
	Other string
	List  []string
}

// Sub too.
type Sub struct {
	Y int
}

// Al is an alias declaration (generators that implement GenerateAliasType are called for it).
type Al = map[string]int

//line /shared/templates/model.tmpl:40
// Tpl was rendered from the same template; in package q it says something else.
// +origin=q
type Tpl struct{ InQ string }
`,
		"r/r.go": `package r

import (
	"x.io/test/lib"
	"x.io/test/p"
)

// RH refers to the same instantiation as p.Holder - from outside p - and to one over a type of its own.
type RH struct {
	B lib.Box[p.Sub]
	C lib.Pair[A, p.Sub]
}

// R uses p.
type R struct {
	// A from p
	A p.A
	M map[string]p.Z
	// Sub embedded
	p.Sub
}

type A struct {
	V int
}

// Al is an alias declaration (generators that implement GenerateAliasType are called for it).
type Al = map[string]int
`,
		"s/s.go": `package s

import (
	"x.io/test/q"
	"x.io/test/r"
)

// S uses q and r.
type S struct {
	Q q.A
	R *r.R
}

type Sub struct{ Z []string }

// Al is an alias declaration (generators that implement GenerateAliasType are called for it).
type Al = map[string]int
`,
	}
}

type Case struct {
	Entry []string `json:"entrypoints_in_order"`
	All   bool     `json:"all"`
	Gens  []string `json:"generator_order"`
	// the selection spans two modules (a main module and a replaced one with another path shape / go version)
	TwoModules bool `json:"two_modules,omitempty"`
}

// checkTwoModules: packages of two modules selected alone and together, in both orders. The modules differ
// in everything a run could resolve once and keep: module path (with / without a dot in its first element,
// which decides how imports are grouped) and go version (which decides how literals are rewritten).
func checkTwoModules(c *core.Ctx) {
	c.Eval(1)
	tree := pipe.Tree{
		"go.mod":            pipe.GoMod("alpha.io/a", "1.24") + "\nrequire beta v0.0.0\n\nreplace beta => ./legacy\n",
		"pa/pa.go":          "package pa\n\nimport _ \"beta/pb\"\n\ntype T struct{}\n",
		"sub/sub.go":        "package sub\n\ntype X int\n",
		"legacy/go.mod":     pipe.GoMod("beta", "1.12"),
		"legacy/pb/pb.go":   "package pb\n\ntype T struct{}\n",
		"legacy/sub/sub.go": "package sub\n\ntype X int\n",
	}
	act := pipe.Action{Render: "func F_$T() int {\n\treturn 0755\n}\n", Imports: []string{"fmt", "beta/sub", "alpha.io/a/sub"}}
	files := []string{"pa/zz_generated.g1.go", "legacy/pb/zz_generated.g1.go"}
	runSel := func(entry []string) (map[string]string, bool) {
		dir := pipe.TempDir("c05m")
		defer os.RemoveAll(dir)
		_ = pipe.WriteTree(dir, tree)
		o := pipe.Exec(pipe.Spec{Dir: dir, Entrypoints: entry, Globals: map[string][]string{"gengo:g1": {"true"}},
			Gens: []pipe.GenScript{{Name: "g1", ByType: map[string]pipe.Action{"alpha.io/a/pa.T": act, "beta/pb.T": act}}}})
		c.Trans(1)
		cs := Case{Entry: entry, TwoModules: true}
		if !o.OK() {
			c.Fail("", cs, "run over entrypoints %v of the two-module tree failed: load=%q err=%q panic=%q", entry, o.LoadErr, o.Err, o.Panic)
			return nil, false
		}
		out := map[string]string{}
		for _, f := range files {
			if b, err := os.ReadFile(dir + "/" + f); err == nil {
				out[f] = string(b)
			}
		}
		return out, true
	}
	ref := map[string]string{}
	for i, e := range []string{"./pa", "beta/pb"} {
		o, ok := runSel([]string{e})
		if !ok {
			return
		}
		if o[files[i]] == "" {
			c.Fail("", Case{Entry: []string{e}, TwoModules: true}, "selecting %s alone wrote no %s", e, files[i])
			return
		}
		ref[files[i]] = o[files[i]]
	}
	for _, entry := range [][]string{{"./pa", "beta/pb"}, {"beta/pb", "./pa"}} {
		o, ok := runSel(entry)
		if !ok {
			return
		}
		for _, f := range files {
			if o[f] != ref[f] {
				c.Fail("C05-output-depends-on-other-module-in-run", Case{Entry: entry, TwoModules: true}, "entrypoints %v (modules alpha.io/a go 1.24 and beta go 1.12): %s differs from the run that selects its package alone\n--- alone ---\n%s--- together ---\n%s", entry, f, ref[f], o[f])
			}
		}
	}
	c.Nontrivial("two-modules")
}

var scripted = []string{"g1", "n1", "n2", "p1", "g2", "na"}
var real = []string{"runtimedoc", "deepcopy", "defaulter"}

func spec(dir string, entry []string, all bool, order []string) pipe.Spec {
	// the same global tags in every run, whichever generators take part (tags of absent generators are
	// inert): what a generator sees through Context.Doc must not differ between the runs compared
	globals := map[string][]string{}
	for _, g := range append(append([]string{}, scripted...), real...) {
		if g != "na" { // "na" is enabled by package p's own doc tag only
			globals["gengo:"+g] = []string{"true"}
		}
	}
	var gens []pipe.GenScript
	var reals []string
	for _, g := range order {
		if g != "na" { // "na" is enabled by package p's own doc tag only
			globals["gengo:"+g] = []string{"true"}
		}
		isReal := false
		for _, r := range real {
			if r == g {
				isReal = true
			}
		}
		if isReal {
			reals = append(reals, g)
			continue
		}
		if g == "na" {
			// its last render into p's file panics half way (unbound template name) and is recovered by the
			// generator: whatever was yielded before must stay in THIS file and reach no other one
			gens = append(gens, pipe.GenScript{Name: g, Default: pipe.Action{Render: "var NA_$T = 1\n"},
				ByType: map[string]pipe.Action{modPath + "/p.Z": {Render: "var NA_$T = 1\n", Recovered: "var Partial_$T_$G = 1\n"}}})
			continue
		}
		gs := pipe.GenScript{Name: g, Stateful: true, QuietPkgs: []string{modPath + "/o"}, Default: pipe.Action{Render: "var V_$T_$G = \"$P\"\n", Imports: []string{"x.io/dep/$T", "y.io/other/dep"}}}
		if g == "g1" {
			// asks Context.Doc about the types of the fields (r and s have fields of types of p, q and r; p has a
			// package-level tag of its own): the answer is rendered and must not depend on who asked before
			gs.Default.DocOfFieldTypes = true
			// and refers to two packages through snippet VALUES shared by all packages of the process
			gs.Default.SharedExpose = true
			// and renders the type of every field through snippet.ID (p.Holder and r.RH hold the same generic
			// instantiation, seen from inside and from outside the package of its type argument)
			gs.Default.FieldTypeIDs = true
			// and asks the declaring packages for the methods of the field types
			gs.Default.MethodsOfFieldTypes = true
			// and about the doc and tags of the type itself (p.Tpl and q.Tpl sit behind the same //line directive)
			gs.Default.DocOfSelf = true
		}
		if g == "g2" {
			// a generator that registers deferred callbacks and imports per type
			gs.Default.Defers = []pipe.Action{{Render: "var D_$T_$G = 1\n"}}
			// package p (processed early) refers to two packages with the same last segment, the others only
			// to the second one: the import name chosen inside p's file must not follow into theirs
			gs.Default.Imports = []string{"x.io/ext/meta"}
			gs.ByType = map[string]pipe.Action{}
			for _, tn := range []string{"A", "Sub", "Named", "Z"} {
				a := gs.Default
				a.Imports = []string{"x.io/core/meta", "x.io/ext/meta"}
				gs.ByType[modPath+"/p."+tn] = a
			}
		}
		gens = append(gens, gs)
	}
	var eps []string
	for _, e := range entry {
		eps = append(eps, "./"+e)
	}
	return pipe.Spec{Dir: dir, Entrypoints: eps, All: all, Globals: globals, Gens: gens, Real: reals}
}

func generatedOf(t pipe.Tree, pkg string) map[string]string {
	out := map[string]string{}
	for k, v := range t {
		if strings.HasPrefix(k, pkg+"/zz_generated.") {
			out[k] = v
		}
	}
	return out
}

func runOnce(c *core.Ctx, cs Case) (pipe.Tree, pipe.Outcome, bool) { return runIn(c, cs, false) }

// runIn: child = in a FRESH process (the reference runs: nothing an earlier run left in package-level
// state of the library can reach them)
func runIn(c *core.Ctx, cs Case, child bool) (pipe.Tree, pipe.Outcome, bool) {
	dir := pipe.TempDir("c05")
	defer os.RemoveAll(dir)
	if err := pipe.WriteTree(dir, module()); err != nil {
		c.Internal("%v", err)
		return nil, pipe.Outcome{}, false
	}
	var o pipe.Outcome
	if child {
		var err error
		if o, _, _, err = pipe.ExecChild(spec(dir, cs.Entry, cs.All, cs.Gens)); err != nil {
			c.Internal("child: %v", err)
			return nil, o, false
		}
	} else {
		o = pipe.Exec(spec(dir, cs.Entry, cs.All, cs.Gens))
	}
	c.Trans(1)
	if !o.OK() {
		c.Fail("", cs, "run failed: load=%q err=%q panic=%q\n%s", o.LoadErr, o.Err, o.Panic, o.Stdout)
		return nil, o, false
	}
	t, err := pipe.ReadTree(dir)
	if err != nil {
		c.Internal("%v", err)
		return nil, o, false
	}
	return t, o, true
}

var aloneCache = map[string]map[string]string{}

func alone(c *core.Ctx, pkg string, gens []string) (map[string]string, bool) {
	key := pkg + "|" + strings.Join(gens, ",")
	if v, ok := aloneCache[key]; ok {
		return v, true
	}
	t, _, ok := runIn(c, Case{Entry: []string{pkg}, All: false, Gens: gens}, true)
	if !ok {
		return nil, false
	}
	g := generatedOf(t, pkg)
	aloneCache[key] = g
	return g, true
}

func checkCase(c *core.Ctx, cs Case) {
	c.Eval(1)
	c.Trace(1)
	t, o, ok := runOnce(c, cs)
	if !ok {
		return
	}
	// the packages this run has to process: the entrypoints and, with All, the module packages they import
	// (r imports p; s imports q and r) - known from the module model, not from who happened to call back
	localDeps := map[string][]string{"p": {"lib"}, "r": {"p", "lib"}, "s": {"q", "r", "p", "lib"}}
	processed := map[string]bool{}
	for _, e := range cs.Entry {
		processed[e] = true
		if cs.All {
			for _, d := range localDeps[e] {
				processed[d] = true
			}
		}
	}
	for _, e := range o.Log {
		if p := strings.TrimPrefix(e.Pkg, modPath+"/"); !processed[p] {
			c.Fail("", cs, "a generator was invoked for package %s, which this run does not have to process", p)
		}
	}
	var ps []string
	for p := range processed {
		ps = append(ps, p)
	}
	sort.Strings(ps)
	c.State(fmt.Sprintf("%v|%v", ps, cs.All))
	if len(ps) > 1 {
		c.Nontrivial(fmt.Sprintf("%v|%v|%v", cs.Entry, cs.All, cs.Gens))
	}
	for _, p := range ps {
		ref, ok := alone(c, p, cs.Gens)
		if !ok {
			return
		}
		got := generatedOf(t, p)
		if len(ref) == 0 {
			c.Internal("vacuous reference: package %s alone generated nothing", p)
		}
		if p == "o" && len(ref) > 5 {
			c.Internal("package o was meant to be quiet for the scripted generators but has %d files", len(ref))
		}
		for f, want := range ref {
			if g, ok := got[f]; !ok {
				c.Fail("", cs, "%s is generated when %s is processed alone but missing in this run (processed %v)", f, p, ps)
			} else if g != want {
				c.Fail("", cs, "%s differs from the run that processes %s alone (processed together: %v)\n--- alone ---\n%s\n--- together ---\n%s", f, p, ps, want, g)
			}
		}
		for f := range got {
			if _, ok := ref[f]; !ok {
				c.Fail("", cs, "%s is generated in this run but not when %s is processed alone", f, p)
			}
		}
		// "a fresh import table and buffer per generator": the file of generator g is also the one that a
		// run with g as the ONLY generator writes for this package
		if len(cs.Gens) > 1 {
			for _, g := range cs.Gens {
				solo, ok := alone(c, p, []string{g})
				if !ok {
					return
				}
				f := p + "/zz_generated." + g + ".go"
				if got[f] != solo[f] {
					c.Fail("", cs, "%s differs from the run in which %s is the only generator (and %s the only package)\n--- only generator ---\n%s\n--- this run ---\n%s", f, g, p, solo[f], got[f])
				}
			}
		}
	}
	// packages not in the run must have no generated files
	for _, p := range pkgs {
		if !processed[p] && fmt.Sprint(generatedOf(t, p)) != fmt.Sprint(generatedOf(module(), p)) {
			c.Fail("", cs, "package %s was not processed but its generated files changed: %v", p, generatedOf(t, p))
		}
	}
}

func permutations(xs []string) [][]string {
	if len(xs) <= 1 {
		return [][]string{append([]string{}, xs...)}
	}
	var out [][]string
	for i := range xs {
		rest := append(append([]string{}, xs[:i]...), xs[i+1:]...)
		for _, p := range permutations(rest) {
			out = append(out, append([]string{xs[i]}, p...))
		}
	}
	return out
}

func run(c *core.Ctx) {
	allGens := append(append([]string{}, scripted...), real...)
	genOrders := [][]string{allGens}
	rev := append([]string{}, allGens...)
	for i, j := 0, len(rev)-1; i < j; i, j = i+1, j-1 {
		rev[i], rev[j] = rev[j], rev[i]
	}
	genOrders = append(genOrders, rev)
	if c.Thorough() {
		genOrders = append(genOrders, []string{"p1"}, []string{"g1", "runtimedoc"}, []string{"deepcopy", "n1"})
	}
	c.Bound("packages", pkgs)
	c.Bound("generators", allGens)
	c.Bound("generator_orders", genOrders)
	n := 0
	for mask := 1; mask < 1<<len(pkgs); mask++ {
		var sel []string
		for i, p := range pkgs {
			if mask&(1<<i) != 0 {
				sel = append(sel, p)
			}
		}
		for _, perm := range permutations(sel) {
			for _, all := range []bool{false, true} {
				for _, gord := range genOrders {
					n++
					if !c.Next() {
						continue
					}
					cs := Case{Entry: perm, All: all, Gens: gord}
					checkCase(c, cs)
					if len(perm) == 3 {
						c.Sample(cs)
					}
				}
			}
		}
	}
	c.Bound("ordered_selections_x_all_x_generator_orders", n)
	if c.Next() {
		checkTwoModules(c)
	}
	c.Bound("two_module_selections", []string{"./pa of alpha.io/a (go 1.24)", "beta/pb of the replaced module beta (go 1.12)", "both, in either order"})
}

func replay(c *core.Ctx, raw json.RawMessage) {
	var cs Case
	if err := json.Unmarshal(raw, &cs); err != nil {
		c.Internal("bad case: %v", err)
		return
	}
	if cs.TwoModules {
		checkTwoModules(c)
		return
	}
	checkCase(c, cs)
}

func init() {
	core.Register(&core.Prop{
		ID: "C05", Level: "model_checking", Run: run, Replay: replay,
		Rule:        "every non-empty ordered selection of entrypoints out of 5 packages (r imports p, s imports q and r; o sorts first and makes the scripted stateful generators record state without rendering anything) x All on/off x generator orders, each on a pristine copy of the module; generators: stateful scripted ones without New (g1, g2 with Defer), with a custom New (n1), with a custom New that copies its receiver (n2), registered with pre-allocated reference state and no New (p1), plus runtimedoc/deepcopy/defaulter; oracle: bytes of every <base>.<gen>.go of every processed package == bytes of the run selecting that package alone IN A FRESH PROCESS == bytes of the run selecting that package alone with that generator as the only one; plus one tree of two modules (different path shape and go version) whose packages are selected alone and together in both orders; non-trivial = more than one package processed; states = distinct (processed set, All)",
		Assumptions: []string{"each run starts from the same module tree (the only outputs of earlier runs in it are three stale files in package o)"},
	})
}
