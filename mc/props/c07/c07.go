// Package c07: gengo only touches its own output files. Histories of one and
// two runs over every combination of generator behaviours, every subset of
// pre-existing files (one package per subset), All on/off and two base names;
// the whole module tree is compared before/after against an allowed-set model.
package c07

import (
	"encoding/json"
	"fmt"
	"os"
	"sort"
	"strings"

	"verif/mc/core"
	"verif/mc/pipe"
)

// module layouts: module path, directory prefix of the entry packages, directories of the imported and
// of the never-selected package. Layouts 1 and 2 make the module path (or its last element) re-occur
// inside package paths and directory names.
type layout struct {
	Mod, Entry, Dep, Other string
	// Nested: a second module lives below the module root under a path that has the module path as a prefix
	// (monorepo style, wired in by a replace directive) and is imported by Dep; it is nobody's to touch
	Nested string
}

var layouts = []layout{
	{"x.io/test", "p", "dep", "other", ""},
	{"app", "p/app", "app", "other/app", ""},
	{"x.io/te.st/v2", "p/v2/x.io/te.st", "v2", "te.st/v2", ""},
	{"x.io/test", "p", "dep", "other", "plugins"},
}

var modPath = layouts[0].Mod
var lay = layouts[0]

func lastSeg(s string) string { return s[strings.LastIndex(s, "/")+1:] }

// behaviours of a generator for the (single enabled) type T of each package
var behaviours = []string{"render", "nothing", "skip", "ignore", "ignore+render", "render-only-in-defer", "blank-lines-only", "render+skip"}

func action(b string) pipe.Action {
	switch b {
	case "render":
		return pipe.Action{Render: "var V_$T_$G = 1\n"}
	case "nothing":
		return pipe.Action{}
	case "skip":
		return pipe.Action{Ret: "skip"}
	case "ignore":
		return pipe.Action{Ret: "ignore"}
	case "ignore+render":
		return pipe.Action{Render: "var V_$T_$G = 2\n", Ret: "ignore"}
	case "render-only-in-defer":
		// collect-then-emit: nothing from GenerateType, everything from a Defer callback
		return pipe.Action{Defers: []pipe.Action{{Render: "var V_$T_$G = 3\n"}}}
	case "render+skip":
		// renders a registration line for the type and then says "not for me" (ErrSkip is no error: what was rendered stays)
		return pipe.Action{Render: "var V_$T_$G = 4\n", Ret: "skip"}
	case "blank-lines-only":
		// the generator writes, but nothing a parser would see (a template whose conditions were all false)
		return pipe.Action{Render: "\n\n"}
	}
	panic(b)
}

func renders(b string) bool {
	return b == "render" || b == "ignore+render" || b == "render-only-in-defer" || b == "render+skip"
}

// pre-existing files of a package (bit i of the subset index)
func preFiles(base, pkg string) []struct{ name, content string } {
	return []struct{ name, content string }{
		{"user.go", "package " + pkg + "\n\nvar User = 1\n"},
		{base + "X.go", "package " + pkg + "\n\nvar LookAlikeX = 1\n"},
		{base + "_x.go", "package " + pkg + "\n\nvar LookAlikeUnderscore = 1\n"},
		{base + ".old.go", "package " + pkg + "\n\nvar StaleOld = 1\n"},
		{base + ".g1.go", "package " + pkg + "\n\nvar PreviousG1 = 1\n"},
		{base + ".g2.go", "package " + pkg + "\n\nvar PreviousG2 = 1\n"},
		{base + ".txt", "not go\n"},
		{"README.md", "# readme\n"},
	}
}

const nPre = 8

func pkgSrc(name string, imports string) string {
	s := "package " + name + "\n\n"
	if imports != "" {
		s += "import dep \"" + imports + "\"\n\nvar _ dep.T\n\n"
	}
	return s + "type T struct{ A int }\n\ntype U int\n"
}

// module layout: p/kNNN (entrypoints, one per subset of pre-existing files,
// each importing dep), dep (imported only), other (never selected), root files.
func buildModule(base string, subsets []int) pipe.Tree {
	t := pipe.Tree{
		"go.mod":           pipe.GoMod(modPath, "1.24"),
		"README.md":        "# root\n",
		base + ".txt":      "root look-alike\n",
		base + ".root.txt": "root look-alike 2\n",
		"docs/notes.txt":   "notes\n",
	}
	add := func(dir, pkg string, subset int, imports string) {
		t[dir+"/"+pkg+".go"] = pkgSrc(pkg, imports)
		// test files (in-package and external test package) with types of their own, a file excluded by a
		// build constraint and a testdata directory: never part of the package gengo processes
		t[dir+"/"+pkg+"_test.go"] = "package " + pkg + "\n\ntype InTest struct{ A int }\n"
		t[dir+"/"+pkg+"_ext_test.go"] = "package " + pkg + "_test\n\ntype InExtTest struct{ A int }\n"
		t[dir+"/ignored.go"] = "//go:build ignore\n\npackage " + pkg + "\n\ntype Ignored struct{ A int }\n"
		t[dir+"/testdata/"+base+".g1.go"] = "package testdata\n\nvar LooksLikeAnOutput = 1\n"
		// files whose //line directive (ahead of the package clause, as code generators emit) names another file:
		// a user file that claims to come from an OUTPUT of the never-selected package, and a stale output that
		// claims to come from a template
		if dir != lay.Other {
			up := strings.Repeat("../", strings.Count(dir, "/")+1)
			t[dir+"/linedir.go"] = "//line " + up + lay.Other + "/" + base + ".g1.go:1\npackage " + pkg + "\n\nvar LineDirective = 1\n"
		}
		t[dir+"/"+base+".legacy.go"] = "//line legacy.tmpl:1\npackage " + pkg + "\n\nvar Legacy = 1\n"
		for i, f := range preFiles(base, pkg) {
			if subset&(1<<i) != 0 {
				t[dir+"/"+f.name] = f.content
			}
		}
	}
	for _, s := range subsets {
		name := fmt.Sprintf("k%03d", s)
		add(lay.Entry+"/"+name, name, s, modPath+"/"+lay.Dep)
	}
	if lay.Nested != "" {
		nm := modPath + "/" + lay.Nested
		t["go.mod"] = pipe.GoMod(modPath, "1.24") + "\nrequire " + nm + " v0.0.0\n\nreplace " + nm + " => ./" + lay.Nested + "\n"
		t[lay.Nested+"/go.mod"] = pipe.GoMod(nm, "1.24")
		add(lay.Nested+"/np", "np", 1<<nPre-1, "")
		add(lay.Dep, "dep", 1<<nPre-1, nm+"/np")
	} else {
		add(lay.Dep, "dep", 1<<nPre-1, "")
	}
	add(lay.Other, "other", 1<<nPre-1, "")
	return t
}

type Run struct {
	B1, B2 string `json:",omitempty"`
	All    bool
	Force  bool `json:",omitempty"`
}

type Case struct {
	Layout  int    `json:"module_layout,omitempty"`
	Base    string `json:"base"`
	Subsets []int  `json:"pre_existing_file_subsets"`
	Runs    []Run  `json:"runs"`
	// every run is started with the directory above the entry packages as working directory (not the module root)
	FromSubdir bool `json:"started_in_a_sub_directory,omitempty"`
	// an Execute over ANOTHER module failed in this process just before (one generator rendered, the next one
	// returned an error: nothing of that run was written)
	AfterFailedRun bool `json:"after_a_failed_execute_in_the_same_process,omitempty"`
}

// failedRunBefore: an Execute that fails after a generator rendered something that is never written.
func failedRunBefore(c *core.Ctx) {
	dir := pipe.TempDir("c07f")
	defer os.RemoveAll(dir)
	_ = pipe.WriteTree(dir, pipe.Tree{
		"go.mod":   pipe.GoMod("x.io/failing", "1.24"),
		"f1/f1.go": "package f1\n\ntype T struct{}\n\ntype Bad struct{}\n",
		"f2/f2.go": "package f2\n\ntype T struct{}\n",
	})
	o := pipe.Exec(pipe.Spec{Dir: dir, Entrypoints: []string{"./f1", "./f2"}, Globals: map[string][]string{"gengo:g1": {"true"}, "gengo:g2": {"true"}},
		Gens: []pipe.GenScript{
			{Name: "g1", Default: pipe.Action{Render: "var LeftOverFromFailedRun_$T_$G = 1\n"}},
			{Name: "g2", Default: pipe.Action{Render: "var LeftOverFromFailedRun_$T_$G = 2\n"}, ByType: map[string]pipe.Action{"x.io/failing/f1.Bad": {Ret: "error"}}},
		}})
	c.Trans(1)
	if o.Err == "" {
		c.Internal("the run before was meant to fail: %+v", o)
	}
}

func dirOfPkg(path string) string { return strings.TrimPrefix(strings.TrimPrefix(path, modPath), "/") }

func checkCase(c *core.Ctx, cs Case) {
	lay = layouts[cs.Layout]
	modPath = lay.Mod
	dir := pipe.TempDir("c07")
	defer os.RemoveAll(dir)
	if err := pipe.WriteTree(dir, buildModule(cs.Base, cs.Subsets)); err != nil {
		c.Internal("write module: %v", err)
		return
	}
	c.Eval(1)
	c.Trace(1)
	if cs.AfterFailedRun {
		failedRunBefore(c)
	}
	for ri, r := range cs.Runs {
		before, err := pipe.ReadTree(dir)
		if err != nil {
			c.Internal("%v", err)
			return
		}
		spec := pipe.Spec{
			Dir: dir, Entrypoints: []string{"./" + lay.Entry + "/..."}, All: r.All, Force: r.Force, Base: cs.Base, Cwd: "",
			Globals: map[string][]string{"gengo:g1": {"true"}, "gengo:g2": {"true"}},
			Gens: []pipe.GenScript{
				{Name: "g1", Default: pipe.Action{}, ByType: byT(cs.Subsets, action(r.B1))},
				{Name: "g2", Default: pipe.Action{}, ByType: byT(cs.Subsets, action(r.B2))},
			},
		}
		if cs.FromSubdir {
			spec.Cwd, spec.Entrypoints = lay.Entry, []string{"./..."}
		}
		o := pipe.Exec(spec)
		c.Trans(1)
		if !o.OK() {
			c.Fail("", cs, "run %d (%+v) failed: load=%q err=%q panic=%q", ri+1, r, o.LoadErr, o.Err, o.Panic)
			return
		}
		after, err := pipe.ReadTree(dir)
		if err != nil {
			c.Internal("%v", err)
			return
		}
		processed := map[string]bool{} // package dirs for which a generator was invoked
		for _, e := range o.Log {
			if e.Kind == "type" {
				if e.Type == "InTest" || e.Type == "InExtTest" || e.Type == "Ignored" || strings.HasSuffix(e.Pkg, "_test") || strings.HasSuffix(e.Pkg, "/testdata") {
					c.Fail("", cs, "run %d: a generator was invoked for %s.%s, which is declared in a test file / a file excluded by its build constraint / a testdata directory", ri+1, e.Pkg, e.Type)
				}
				processed[dirOfPkg(e.Pkg)] = true
			}
		}
		// which packages must have been processed: all entry packages; dep iff All (unless cached: only possible from run 2 on)
		for _, s := range cs.Subsets {
			d := fmt.Sprintf("%s/k%03d", lay.Entry, s)
			if !processed[d] && !(r.All && ri > 0) {
				c.Fail("", cs, "run %d: entry package %s was not processed", ri+1, d)
			}
		}
		// with All the imported package of the module is processed as well (known from the module model, not from
		// who called back); only a later run may find it cached
		if r.All && (ri == 0 || r.Force) && !processed[lay.Dep] {
			c.Fail("", cs, "run %d (%+v): All is set but the imported package %s of the module was not processed (its stale outputs stay, its generators never run)", ri+1, r, lay.Dep)
		}
		if processed[lay.Other] || (!r.All && processed[lay.Dep]) || (lay.Nested != "" && processed[lay.Nested+"/np"]) {
			c.Fail("", cs, "run %d: a package that was not selected was processed: %v", ri+1, keys(processed))
		}
		created, changed, deleted := pipe.Diff(before, after)
		touched := append(append(append([]string{}, created...), changed...), deleted...)
		for _, p := range touched {
			if p == "gengo.sum" {
				if !r.All {
					c.Fail("", cs, "run %d: gengo.sum touched although All is off", ri+1)
				}
				continue
			}
			d, f := splitPath(p)
			if !processed[d] || !strings.HasPrefix(f, cs.Base+".") {
				c.Fail("", cs, "run %d (%+v): touched %q, which is not <base>.* inside a processed package (created=%v changed=%v deleted=%v)", ri+1, r, p, created, changed, deleted)
			}
		}
		if r.All {
			if _, ok := after["gengo.sum"]; !ok {
				c.Fail("", cs, "run %d: All run left no gengo.sum", ri+1)
			}
		}
		// existence model for every processed package
		for d := range processed {
			for gi, g := range []string{"g1", "g2"} {
				b := []string{r.B1, r.B2}[gi]
				if d == lay.Dep {
					b = "nothing" // ByType only scripts the p/k* packages; dep uses Default (nothing)
				}
				f := d + "/" + cs.Base + "." + g + ".go"
				_, was := before[f]
				_, is := after[f]
				want := renders(b)
				if b == "ignore" {
					want = was
					if was && before[f] != after[f] {
						c.Fail("", cs, "run %d: %s signalled ErrIgnore and rendered nothing but %s changed", ri+1, g, f)
					}
				}
				if b == "blank-lines-only" {
					// "it rendered" and "it rendered nothing" are both defensible readings, so the file may
					// be rewritten (without declarations) or deleted; what it may not do is survive as it was
					if is && strings.Contains(after[f], "var ") {
						c.Fail("C07-blank-output-leaves-previous-file", cs, "run %d (%+v): %s rendered only blank lines, yet %s still holds the declarations of an earlier run (neither rewritten nor deleted)", ri+1, r, g, f)
					}
					continue
				}
				if is != want {
					c.Fail("", cs, "run %d (%+v): %s exists=%v, model says %v (behaviour %q, existed before=%v)", ri+1, r, f, is, want, b, was)
				}
			}
			// stale outputs of generators no longer run are removed
			if _, is := after[d+"/"+cs.Base+".old.go"]; is {
				c.Fail("", cs, "run %d: stale %s/%s.old.go was not removed", ri+1, d, cs.Base)
			}
			if _, is := after[d+"/"+cs.Base+".legacy.go"]; is {
				c.Fail("", cs, "run %d: stale %s/%s.legacy.go (which carries a //line directive naming a template) was not removed", ri+1, d, cs.Base)
			}
		}
		c.State(fmt.Sprintf("%s|%v|%v|%d|%d|%d", r.B1+"/"+r.B2, r.All, ri, len(created), len(changed), len(deleted)))
	}
	c.Nontrivial(fmt.Sprintf("%+v", cs))
}

func byT(subsets []int, a pipe.Action) map[string]pipe.Action {
	m := map[string]pipe.Action{}
	for _, s := range subsets {
		m[fmt.Sprintf("%s/%s/k%03d.T", modPath, lay.Entry, s)] = a
	}
	return m
}

func splitPath(p string) (dir, file string) {
	i := strings.LastIndex(p, "/")
	if i < 0 {
		return "", p
	}
	return p[:i], p[i+1:]
}

func keys(m map[string]bool) []string {
	var out []string
	for k := range m {
		out = append(out, k)
	}
	sort.Strings(out)
	return out
}

func run(c *core.Ctx) {
	var subsets []int
	if c.Thorough() {
		for s := 0; s < 1<<nPre; s++ {
			subsets = append(subsets, s)
		}
	} else {
		// none, all, every single file, every pair containing a previous output
		subsets = []int{0, 1<<nPre - 1}
		for i := 0; i < nPre; i++ {
			subsets = append(subsets, 1<<i)
		}
		for i := 0; i < nPre; i++ {
			for _, j := range []int{3, 4, 5} {
				if i != j {
					subsets = append(subsets, 1<<i|1<<j)
				}
			}
		}
		subsets = dedup(subsets)
	}
	bases := []string{"zz_generated", "gen"}
	c.Bound("behaviours", behaviours)
	c.Bound("pre_existing_file_kinds", []string{"user.go", "<base>X.go", "<base>_x.go", "<base>.old.go", "<base>.g1.go", "<base>.g2.go", "<base>.txt", "README.md"})
	c.Bound("pre_existing_subsets", len(subsets))
	c.Bound("bases", bases)
	c.Bound("history_length", 2)

	for _, base := range bases {
		for _, all := range []bool{false, true} {
			// one-run histories: all 25 behaviour pairs
			for _, b1 := range behaviours {
				for _, b2 := range behaviours {
					if !c.Next() {
						continue
					}
					cs := Case{Base: base, Subsets: subsets, Runs: []Run{{b1, b2, all, false}}}
					checkCase(c, cs)
					c.Sample(cs.Runs)
				}
			}
		}
	}
	// the other module layouts (module path re-occurring inside package paths): one-run histories
	var ls []string
	for _, l := range layouts {
		ls = append(ls, fmt.Sprintf("module %s: entries %s/kNNN, imported %s, unselected %s", l.Mod, l.Entry, l.Dep, l.Other))
	}
	c.Bound("module_layouts", ls)
	for li := 1; li < len(layouts); li++ {
		for _, all := range []bool{false, true} {
			for _, b1 := range behaviours {
				for _, b2 := range behaviours {
					if !c.Next() {
						continue
					}
					small := subsets
					if len(small) > 12 {
						small = []int{0, 1<<nPre - 1, 1 << 3, 1 << 4, 1<<4 | 1<<5, 1 << 6}
					}
					checkCase(c, Case{Layout: li, Base: "zz_generated", Subsets: small, Runs: []Run{{b1, b2, all, false}}})
				}
			}
		}
	}
	// the process is started in the directory above the entry packages instead of the module root (a
	// go:generate line or a driver living in a sub-directory): every layout, one-run histories
	for li := range layouts {
		for _, all := range []bool{false, true} {
			for _, b1 := range behaviours {
				for _, b2 := range behaviours {
					if !c.Thorough() && b1 != b2 && b1 != "render" && b2 != "render" {
						continue
					}
					if !c.Next() {
						continue
					}
					checkCase(c, Case{Layout: li, Base: "zz_generated", Subsets: []int{0, 1<<nPre - 1, 1 << 4, 1<<4 | 1<<5}, Runs: []Run{{b1, b2, all, false}}, FromSubdir: true})
				}
			}
		}
	}
	c.Bound("working_directories", []string{"module root", "the directory above the entry packages"})
	// Force (regenerate whatever the cache says) changes nothing about which files a run may touch: one-run histories
	// and second runs over the output of an ordinary first run, All on and off
	for _, all := range []bool{false, true} {
		for _, b1 := range behaviours {
			for _, b2 := range behaviours {
				if !c.Thorough() && b1 != b2 && b1 != "render" && b2 != "render" {
					continue
				}
				if !c.Next() {
					continue
				}
				small := []int{0, 1<<nPre - 1, 1 << 4, 1<<4 | 1<<5}
				checkCase(c, Case{Base: "zz_generated", Subsets: small, Runs: []Run{{b1, b2, all, true}}})
				for _, all1 := range []bool{false, true} {
					checkCase(c, Case{Base: "zz_generated", Subsets: small, Runs: []Run{{"render", "render", all1, false}, {b1, b2, all, true}}})
				}
			}
		}
	}
	c.Bound("force", "one-run histories and second runs with Force set, All on and off")
	// one-run histories right after an Execute (over another module) that failed part-way in this process
	for _, b1 := range behaviours {
		for _, b2 := range behaviours {
			if !c.Next() {
				continue
			}
			checkCase(c, Case{Base: "zz_generated", Subsets: []int{0, 1<<nPre - 1, 1 << 4}, Runs: []Run{{b1, b2, false, false}}, AfterFailedRun: true})
		}
	}
	c.Bound("after_a_failed_execute_in_the_same_process", "all behaviour pairs, one-run histories")
	// two-run histories (previous outputs produced by the real system)
	for _, all1 := range []bool{false, true} {
		for _, all2 := range []bool{false, true} {
			for _, f1 := range behaviours {
				for _, f2 := range behaviours {
					if !c.Thorough() && f1 != f2 && !(f1 == "render" || f2 == "render") {
						continue // quick: first run on the diagonal or with one rendering generator
					}
					for _, s1 := range behaviours {
						for _, s2 := range behaviours {
							if !c.Next() {
								continue
							}
							small := subsets
							if len(small) > 12 {
								small = []int{0, 1<<nPre - 1, 1 << 3, 1 << 4, 1<<4 | 1<<5, 1 << 6}
							}
							checkCase(c, Case{Base: "zz_generated", Subsets: small, Runs: []Run{{f1, f2, all1, false}, {s1, s2, all2, false}}})
						}
					}
				}
			}
		}
	}
}

func dedup(xs []int) []int {
	seen := map[int]bool{}
	var out []int
	for _, x := range xs {
		if !seen[x] {
			seen[x] = true
			out = append(out, x)
		}
	}
	sort.Ints(out)
	return out
}

func replay(c *core.Ctx, raw json.RawMessage) {
	var cs Case
	if err := json.Unmarshal(raw, &cs); err != nil {
		c.Internal("bad case: %v", err)
		return
	}
	checkCase(c, cs)
}

func init() {
	core.Register(&core.Prop{
		ID: "C07", Level: "model_checking", Run: run, Replay: replay,
		Rule: "histories of 1 and 2 real runs over all 36 (g1,g2) behaviour pairs {render, nothing, ErrSkip, ErrIgnore, ErrIgnore+render, render only from a Defer callback} per run x All on/off per run x base names, each run processing one package per subset of 8 pre-existing file kinds (every package also holds an in-package test file, an external-test-package file, a file excluded by a build constraint and a testdata directory with an output look-alike) plus an imported and a never-selected package, in 4 module layouts (two with the module path re-occurring inside package paths, one with a nested module below the root whose path extends the module path and which the imported package imports); every file of the module is compared before/after; non-trivial = every case (each contains look-alike and stale files); states = distinct (behaviour pair, All, run index, #created, #changed, #deleted)",
		Assumptions: []string{
			"a package counts as processed when a generator callback was invoked for it (cached packages of a second All run are not processed)",
			"<base>.txt only has to stay inside the allowed set",
		},
	})
}
