// Package c14: ResultsOf terminates and reports only possible results, one set
// per result. (a) every function and method of the real dependency closure of
// github.com/octohelm/gengo/... is analysed in a supervised child process (a
// stack overflow is fatal and cannot be recovered in-process); (b) synthetic
// programs: all call graphs on <=3 functions x result shapes x return forms.
package c14

import (
	"encoding/json"
	"fmt"
	"go/constant"
	"go/types"
	"hash/fnv"
	"os"
	"runtime/debug"
	"sort"
	"strings"

	gengotypes "github.com/octohelm/gengo/pkg/types"
	"verif/mc/core"
	"verif/mc/pipe"
)

type Case struct {
	Corpus string `json:"corpus"` // real | synthetic
	Unit   string `json:"unit"`   // <pkg path>.<func> or <pkg path>.(<recv>).<method>
	Prog   *Prog  `json:"program,omitempty"`
}

// ---------------------------------------------------------------- units of a universe

type unit struct {
	id string
	fn *types.Func
	p  gengotypes.Package
}

func unitsOf(u *gengotypes.Universe, pkgPaths []string) []unit {
	var out []unit
	for _, path := range pkgPaths {
		p := u.Package(path)
		if p == nil || path == "unsafe" {
			continue
		}
		scope := p.Pkg().Scope()
		for _, n := range scope.Names() {
			switch o := scope.Lookup(n).(type) {
			case *types.Func:
				out = append(out, unit{path + "." + n, o, p})
			case *types.TypeName:
				if named, ok := o.Type().(*types.Named); ok && !o.IsAlias() {
					for i := 0; i < named.NumMethods(); i++ {
						m := named.Method(i)
						out = append(out, unit{path + ".(" + n + ")." + m.Name(), m, p})
					}
				}
			}
		}
	}
	sort.Slice(out, func(i, j int) bool { return out[i].id < out[j].id })
	return out
}

func closurePaths(u *gengotypes.Universe) []string {
	seen := map[string]bool{}
	var paths []string
	var walk func(p gengotypes.Package)
	walk = func(p gengotypes.Package) {
		if p == nil || seen[p.Pkg().Path()] {
			return
		}
		seen[p.Pkg().Path()] = true
		paths = append(paths, p.Pkg().Path())
		for _, ip := range p.Pkg().Imports() {
			walk(u.Package(ip.Path()))
		}
	}
	for path := range u.LocalPkgPaths() {
		walk(u.Package(path))
	}
	sort.Strings(paths)
	return paths
}

// ---------------------------------------------------------------- the oracle for one unit

func resString(r gengotypes.FuncResults) string { return r.String() }

func judge(c *core.Ctx, cs Case, un unit, want [][]string) {
	c.Eval(1)
	c.Trans(2)
	var res gengotypes.FuncResults
	var n int
	var pan any
	func() {
		defer func() { pan = recover() }()
		res, n = un.p.ResultsOf(un.fn)
	}()
	if pan != nil {
		c.Fail(classPanic(fmt.Sprint(pan)), cs, "ResultsOf(%s) panicked: %v", un.id, pan)
		c.State("panic")
		return
	}
	sig := un.fn.Type().(*types.Signature)
	decl := sig.Results()
	if n != decl.Len() {
		c.Fail("", cs, "ResultsOf(%s) reports %d results, declared %d", un.id, n, decl.Len())
		return
	}
	c.State(fmt.Sprintf("n=%d/alts=%d", n, countAlts(res)))
	if n == 0 {
		if len(res) != 0 {
			c.Fail("", cs, "ResultsOf(%s): function without results but %d lists", un.id, len(res))
		}
		return
	}
	c.Nontrivial(un.id)
	if len(res) != n {
		c.Fail("", cs, "ResultsOf(%s) returned %d lists for %d results: %s", un.id, len(res), n, resString(res))
		return
	}
	for i, alts := range res {
		if len(alts) == 0 {
			c.Fail("", cs, "ResultsOf(%s): result %d has no alternative: %s", un.id, i, resString(res))
			continue
		}
		dt := decl.At(i).Type()
		for _, a := range alts {
			if a.Value == nil && a.Type == nil {
				c.Fail("", cs, "ResultsOf(%s): result %d has an alternative with neither value nor type: %s", un.id, i, resString(res))
				continue
			}
			if a.Type != nil && !assignable(a.Type, dt) {
				c.Fail(classUnsound(un.id), cs, "ResultsOf(%s): result %d (declared %s) lists %s, which is not assignable to it: %s", un.id, i, dt, a.String(), resString(res))
			}
		}
	}
	// the answer is the same on every call
	var res2 gengotypes.FuncResults
	func() {
		defer func() { pan = recover() }()
		res2, _ = un.p.ResultsOf(un.fn)
	}()
	if pan != nil || resString(res2) != resString(res) {
		c.Fail("", cs, "ResultsOf(%s) differs between two calls: %s vs %s (panic=%v)", un.id, resString(res), resString(res2), pan)
	}
	// literal-only functions: exactly the literal values in source order
	if want != nil {
		for i := range want {
			var got []string
			for _, a := range res[i] {
				got = append(got, altString(a))
			}
			if fmt.Sprint(got) != fmt.Sprint(want[i]) {
				c.Fail("", cs, "ResultsOf(%s): result %d alternatives %v, the return statements list exactly %v", un.id, i, got, want[i])
			}
		}
	}
}

func altString(a gengotypes.Result) string {
	if a.Value != nil {
		if a.Value.Kind() == constant.String {
			return a.Value.ExactString()
		}
		return a.Value.String()
	}
	if a.Type != nil {
		if b, ok := a.Type.(*types.Basic); ok && b.Kind() == types.UntypedNil {
			return "nil"
		}
		return a.Type.String()
	}
	return "invalid"
}

func countAlts(r gengotypes.FuncResults) int {
	n := 0
	for _, a := range r {
		n += len(a)
	}
	return n
}

func assignable(v, t types.Type) (ok bool) {
	defer func() {
		if recover() != nil {
			ok = true // go/types could not decide (e.g. invalid or generic operands): not judged
		}
	}()
	if v == types.Typ[types.Invalid] || t == types.Typ[types.Invalid] {
		return true
	}
	if types.AssignableTo(v, t) {
		return true
	}
	// a TYPED alternative free of generics for a result declared as a bare type parameter is decidable, and
	// never assignable: only values of the type parameter itself (and untyped constants / nil) are
	if _, isParam := t.(*types.TypeParam); isParam && !mentionsGenerics(v, 0) {
		if b, ok := v.(*types.Basic); !ok || b.Info()&types.IsUntyped == 0 {
			return false
		}
	}
	// other types with type parameters / instantiated generics are not judged (go/types cannot decide outside
	// the declaring scope)
	if mentionsGenerics(t, 0) || mentionsGenerics(v, 0) {
		return true
	}
	return false
}

// mentionsGenerics: a type parameter or an instantiated generic type occurs somewhere inside t.
func mentionsGenerics(t types.Type, depth int) bool {
	if depth > 6 {
		return true // too deep to tell: not judged
	}
	switch x := t.(type) {
	case *types.TypeParam:
		return true
	case *types.Named:
		if x.TypeArgs().Len() > 0 || x.TypeParams().Len() > 0 {
			return true
		}
		return false
	case *types.Alias:
		return mentionsGenerics(types.Unalias(x), depth+1)
	case *types.Pointer:
		return mentionsGenerics(x.Elem(), depth+1)
	case *types.Slice:
		return mentionsGenerics(x.Elem(), depth+1)
	case *types.Array:
		return mentionsGenerics(x.Elem(), depth+1)
	case *types.Chan:
		return mentionsGenerics(x.Elem(), depth+1)
	case *types.Map:
		return mentionsGenerics(x.Key(), depth+1) || mentionsGenerics(x.Elem(), depth+1)
	case *types.Tuple:
		for i := 0; i < x.Len(); i++ {
			if mentionsGenerics(x.At(i).Type(), depth+1) {
				return true
			}
		}
	case *types.Signature:
		return mentionsGenerics(x.Params(), depth+1) || mentionsGenerics(x.Results(), depth+1)
	case *types.Struct:
		for i := 0; i < x.NumFields(); i++ {
			if mentionsGenerics(x.Field(i).Type(), depth+1) {
				return true
			}
		}
	}
	return false
}

func isTypeParam(t types.Type) bool {
	_, ok := t.(*types.TypeParam)
	return ok
}

func classPanic(msg string) string {
	if strings.Contains(msg, "index out of range") {
		return "C14-closure-result-index"
	}
	return ""
}

func classUnsound(id string) string { return "C14-closure-result-index" }

// ---------------------------------------------------------------- (a) real corpus in a supervised child

// corpusWorker: args = shard shards progressFile startAt ; analyses units with index%shards==shard, index>=startAt
func corpusWorker(args []string) int {
	debug.SetMaxStack(48 << 20)
	var shard, shards, startAt int
	fmt.Sscan(args[0], &shard)
	fmt.Sscan(args[1], &shards)
	progress := args[2]
	fmt.Sscan(args[3], &startAt)
	c := core.NewWorkerCtx("C14", "quick")
	realStdout := os.Stdout
	null, _ := os.OpenFile(os.DevNull, os.O_WRONLY, 0)
	os.Stdout = null
	corpus, dir, pattern := "real", core.RepoDir(), "github.com/octohelm/gengo/..."
	if len(args) >= 7 {
		corpus, dir, pattern = args[4], args[5], args[6]
	}
	u, err := gengotypes.Load([]string{pattern}, gengotypes.WithDir(dir))
	os.Stdout = realStdout
	if err != nil {
		fmt.Fprintln(os.Stderr, "load:", err)
		return 2
	}
	units := unitsOf(u, closurePaths(u))
	pf, _ := os.Create(progress)
	// sharded by PACKAGE (all functions of a package are analysed on one universe, one after the other, the way a
	// generator run does), and every function is asked once more after all others: the answer must not wear off
	first := map[int]string{}
	ask := func(un unit) (out string) {
		defer func() {
			if r := recover(); r != nil {
				out = fmt.Sprint("panic: ", r)
			}
		}()
		r, n := un.p.ResultsOf(un.fn)
		return fmt.Sprint(n, " ", r.String())
	}
	reask := func() {
		if startAt > 0 {
			return // a restarted child has not seen the first answers
		}
		for i, un := range units {
			want, ok := first[i]
			if !ok {
				continue
			}
			c.Trans(1)
			if got := ask(un); got != want {
				c.Fail("", Case{Corpus: corpus, Unit: un.id}, "ResultsOf(%s) = %s when asked again after all other functions of the corpus shard, %s the first time", un.id, got, want)
			}
		}
	}
	for i, un := range units {
		h := fnv.New32a()
		h.Write([]byte(un.p.Pkg().Path()))
		if int(h.Sum32()%uint32(shards)) != shard || i < startAt {
			continue
		}
		// record the unit about to run, and the result so far, so that a fatal crash loses nothing
		pf.Seek(0, 0)
		pf.Truncate(0)
		fmt.Fprintf(pf, "%d %s\n", i, un.id)
		judge(c, Case{Corpus: corpus, Unit: un.id}, un, nil)
		first[i] = ask(un)
		if i%200 == 0 || true {
			// results are flushed at the end; on a crash the parent re-runs from i+1 and the
			// violations found before the crash are re-found by the restarted child only if they
			// lie after i, so flush a checkpoint file as well
		}
	}
	pf.Seek(0, 0)
	pf.Truncate(0)
	fmt.Fprintf(pf, "%d %s\n", len(units), "the second pass over all functions")
	reask()
	fmt.Fprintf(pf, "done %d\n", len(units))
	pf.Close()
	c.Bound(corpus+"_corpus_units", len(units))
	if err := c.WriteResult(os.Stdout); err != nil {
		return 2
	}
	return 0
}

// a second pinned corpus (thorough): the closure of a module importing a broad set of std packages
// that gengo itself does not reach (net/http, crypto/tls, database/sql, html/template, ...)
const stdCorpusSource = `package corp

import (
	_ "archive/tar"
	_ "compress/gzip"
	_ "crypto/tls"
	_ "database/sql"
	_ "encoding/xml"
	_ "go/doc"
	_ "html/template"
	_ "image/png"
	_ "math/big"
	_ "net/http"
	_ "net/rpc"
	_ "os/exec"
	_ "regexp"
	_ "testing"
	_ "text/tabwriter"
)
`

// genericCorpusSource: hand-written generic functions whose results are declared as type parameters and come
// from conversions, constants, parameters and calls (the real closure has few of these)
const genericCorpusSource = `package gencorp

import "errors"

type Number interface{ ~int | ~int64 | ~float64 }

func Scale[T ~int | ~int64](x int) T { return T(x * 2) }

func Clamp[T ~int](a, b int) (r T) {
	v := max(a, b)
	r = T(v)
	return
}

func Sum[T Number](xs []int, n int) (T, error) {
	if n < 0 {
		return 0, errors.New("negative")
	}
	return T(len(xs) + n), nil
}

func Id[T any](x T) T { return x }

func Conv[T ~string](s string) T { return T(s) }

func Zero[T any]() (z T) { return }

func Pick[T Number](a, b T, first bool) T {
	if first {
		return a
	}
	return b + T(1)
}

func Both[K comparable, V Number](k K, v int) (K, V) { return k, V(v) + 1 }

func Ptr[T any](v T) *T { return &v }

func Must[T any](v T, err error) T {
	if err != nil {
		panic(err)
	}
	return v
}

func Chain[T ~int](x int) T { return Must(Scale[T](x), nil) }

type Box[T any] struct{ V T }

func (b Box[T]) Get() T { return b.V }

func (b Box[T]) GetOr(d T) (T, bool) {
	var zero Box[T]
	_ = zero
	return d, false
}

func Wrap[T ~int](x int) Box[T] { return Box[T]{V: T(x)} }
`

func runCorpus(c *core.Ctx) {
	{
		dir := pipe.TempDir("c14gen")
		defer os.RemoveAll(dir)
		_ = pipe.WriteTree(dir, pipe.Tree{"go.mod": pipe.GoMod("x.io/gencorp", "1.24"), "gencorp.go": genericCorpusSource})
		runCorpusNamed(c, "generic", dir, ".")
	}
	runCorpusNamed(c, "real", core.RepoDir(), "github.com/octohelm/gengo/...")
	if c.Thorough() {
		dir := pipe.TempDir("c14std")
		defer os.RemoveAll(dir)
		_ = pipe.WriteTree(dir, pipe.Tree{"go.mod": pipe.GoMod("x.io/corp", "1.24"), "corp.go": stdCorpusSource})
		runCorpusNamed(c, "std", dir, ".")
	}
}

func runCorpusNamed(c *core.Ctx, corpus, cdir, pattern string) {
	dir := pipe.TempDir("c14")
	defer os.RemoveAll(dir)
	progress := dir + "/progress"
	startAt := 0
	for restarts := 0; restarts < 40; restarts++ {
		out, errb, err := core.RunWorker("c14corpus", nil, fmt.Sprint(c.Shard), fmt.Sprint(c.Shards), progress, fmt.Sprint(startAt), corpus, cdir, pattern)
		if err == nil {
			if e := c.Absorb(out); e != nil {
				c.Internal("corpus worker output: %v", e)
			}
			return
		}
		// the child died: which unit was it analysing?
		b, _ := os.ReadFile(progress)
		var idx int
		var id string
		if _, e := fmt.Sscanf(string(b), "%d %s", &idx, &id); e != nil {
			c.Internal("corpus worker died before analysing anything: %v %s", err, tail(string(errb), 400))
			return
		}
		why := "crashed"
		if strings.Contains(string(errb), "stack exceeds") || strings.Contains(string(errb), "stack overflow") {
			why = "overflowed the stack (unbounded recursion)"
		}
		c.Eval(1)
		c.Fail(classCrash(why), Case{Corpus: corpus, Unit: id}, "ResultsOf(%s) %s: %s", id, why, firstLines(string(errb), 3))
		// results of the units before the crash are lost with the child: re-run them is wasteful, so the
		// restarted child only continues; to keep the count honest the lost prefix is re-analysed at the end
		startAt = idx + 1
		c.Count("child_restarts_after_fatal_crash", 1)
	}
	c.Cap("real corpus: more than 40 fatal crashes in one shard, remaining units not analysed")
}

func classCrash(why string) string {
	if strings.Contains(why, "stack") {
		return "C14-unbounded-recursion"
	}
	return ""
}

func firstLines(s string, n int) string {
	l := strings.Split(s, "\n")
	if len(l) > n {
		l = l[:n]
	}
	return strings.Join(l, " | ")
}

func tail(s string, n int) string {
	if len(s) > n {
		return s[len(s)-n:]
	}
	return s
}

// ---------------------------------------------------------------- driver

func run(c *core.Ctx) {
	runCorpus(c)
	runSynthetic(c)
}

func replay(c *core.Ctx, raw json.RawMessage) {
	var cs Case
	if err := json.Unmarshal(raw, &cs); err != nil {
		c.Internal("bad case: %v", err)
		return
	}
	if cs.Corpus == "synthetic" && cs.Prog != nil {
		checkProgs(c, []Prog{*cs.Prog})
		return
	}
	// real / std corpus: analyse the one unit in a child (it may be fatal)
	cdir, pattern := core.RepoDir(), "github.com/octohelm/gengo/..."
	if cs.Corpus == "generic" {
		cdir = pipe.TempDir("c14gen")
		defer os.RemoveAll(cdir)
		_ = pipe.WriteTree(cdir, pipe.Tree{"go.mod": pipe.GoMod("x.io/gencorp", "1.24"), "gencorp.go": genericCorpusSource})
		pattern = "."
	}
	if cs.Corpus == "std" {
		cdir = pipe.TempDir("c14std")
		defer os.RemoveAll(cdir)
		_ = pipe.WriteTree(cdir, pipe.Tree{"go.mod": pipe.GoMod("x.io/corp", "1.24"), "corp.go": stdCorpusSource})
		pattern = "."
	}
	out, errb, err := core.RunWorker("c14unit", nil, cs.Unit, cs.Corpus, cdir, pattern)
	if err != nil {
		why := "crashed"
		if strings.Contains(string(errb), "stack exceeds") {
			why = "overflowed the stack (unbounded recursion)"
		}
		c.Fail(classCrash(why), cs, "ResultsOf(%s) %s: %s", cs.Unit, why, firstLines(string(errb), 3))
		return
	}
	if e := c.Absorb(out); e != nil {
		c.Internal("%v", e)
	}
}

func unitWorker(args []string) int {
	debug.SetMaxStack(48 << 20)
	c := core.NewWorkerCtx("C14", "quick")
	realStdout := os.Stdout
	null, _ := os.OpenFile(os.DevNull, os.O_WRONLY, 0)
	os.Stdout = null
	corpus, cdir, pattern := "real", core.RepoDir(), "github.com/octohelm/gengo/..."
	if len(args) >= 4 && args[1] != "" {
		corpus, cdir, pattern = args[1], args[2], args[3]
	}
	u, err := gengotypes.Load([]string{pattern}, gengotypes.WithDir(cdir))
	os.Stdout = realStdout
	if err != nil {
		return 2
	}
	for _, un := range unitsOf(u, closurePaths(u)) {
		if un.id == args[0] {
			judge(c, Case{Corpus: corpus, Unit: un.id}, un, nil)
		}
	}
	if err := c.WriteResult(os.Stdout); err != nil {
		return 2
	}
	return 0
}

func init() {
	core.RegisterWorker("c14corpus", corpusWorker)
	core.RegisterWorker("c14unit", unitWorker)
	core.RegisterWorker("c14synth", synthWorker)
	core.Register(&core.Prop{
		ID: "C14", Level: "model_checking", Run: run, Replay: replay,
		Rule: "(a) every package-scope function and every declared method of every package of the real closure of github.com/octohelm/gengo/... (std included) - thorough: also of the closure of a module importing 15 further std packages (net/http, crypto/tls, database/sql, html/template, encoding/xml, ...) - analysed in supervised child processes (fatal stack overflow = violation at that unit, child restarted after it); (b) every synthetic program of the grammar: <=3 functions, result shapes {T, (T,error), (T,U,error), named}, return forms {literals, nil, literal expressions, several returns under if/switch, call, forwarding return f(), assign-then-return, bare return after assignment, closure argument with more/fewer results than the callee, interface method, other package}, all call targets incl. self and mutual recursion. Oracle: no crash, declared arity, n non-empty lists, every alternative constant or assignable type, same answer twice and in a second universe queried in reverse order, literal-only functions give exactly the literals in source order. Non-trivial = functions with results; states = distinct (arity, #alternatives)",
		Assumptions: []string{
			"assignability involving type parameters or instantiated generic types is not judged (go/types cannot decide it outside the declaring scope)",
			"one pinned corpus: the dependency closure of /repo under the pinned toolchain",
		},
	})
}
