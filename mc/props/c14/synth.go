package c14

import (
	"encoding/json"
	"fmt"
	"go/types"
	"os"
	"runtime/debug"
	"strings"

	gengotypes "github.com/octohelm/gengo/pkg/types"
	"verif/mc/core"
	"verif/mc/pipe"
)

const modPath = "x.io/test"

// Prog is one synthetic package: functions f0..f(n-1), each with a shape and a body form.
type Prog struct {
	Shapes []int `json:"shapes"`
	Forms  []int `json:"forms"`
	Callee []int `json:"callees"`
}

// result shapes
var shapes = []struct {
	name  string
	decl  string   // result list
	types []string // per position
	named []string // names of named results (nil: unnamed)
}{
	{"T", "string", []string{"string"}, nil},
	{"(T,error)", "(int, error)", []string{"int", "error"}, nil},
	{"(T,U,error)", "(string, int, error)", []string{"string", "int", "error"}, nil},
	{"named", "(s string, err error)", []string{"string", "error"}, []string{"s", "err"}},
}

// literal values per type, two variants
func lit(t string, v int) string {
	switch t {
	case "string":
		return []string{`"a"`, `"b" + "c"`}[v]
	case "int":
		return []string{"1", "-2"}[v]
	case "error":
		return "nil"
	}
	return "nil"
}

// the constant each literal denotes, as ResultsOf prints it
func litValue(t string, v int) string {
	switch t {
	case "string":
		return []string{`"a"`, `"bc"`}[v]
	case "int":
		return []string{"1", "-2"}[v]
	}
	return "nil"
}

var forms = []string{
	"literals",                 // return lit0...
	"two-returns-if",           // if c { return lit0... }; return lit1...
	"switch-returns",           // switch { case c: return lit0...; default: return lit1... }
	"forward-call",             // return fK()          (same shape required, else falls back to call-assign)
	"call-assign-return",       // a, b := fK(); return a', b' (values of own shape built from literals + err)
	"bare-return-after-assign", // named only: s, err = lits; return
	"closure-more-results",     // return wrap(func() (int, string, error) {...})
	"closure-fewer-results",    // return wrap1(func() error {...})
	"interface-method",         // return iface.M()
	"other-package",            // return dep.F()
	"labeled-loop-returns",     // outer: for { for { if c { return lit0 }; continue outer }; return lit1 }
	"select-and-for-returns",   // for { select { case <-ch: return lit0; default: return lit1 } }
	"type-switch-returns",      // switch any(v).(type) { case int: return lit0 }; { return lit1 }
	"goto-label-return",        // if c { goto done }; return lit0; done: return lit1
	"defer-and-closure-noise",  // defer func() { _ = func() int { return 9 }() }(); return lit1
	"shadowing-local-consts",   // const w = "f<i>"; const n = 10+i; return w + w, n * 2: same text, another meaning per function
	"local-iota-consts",        // const ( off = iota; on; unit = 1 << (10 * iota) ); return on / unit: constants only the declaration can evaluate
	"own-call-then-forward",    // if c { return ..., dep.Fail() }; then forward / call-assign fK: caller and callee share a callee
	"variadic-spread-call",     // return ..., joinAll(errList...)      ([]error spread into ...error)
	"variadic-listed-call",     // return ..., joinAll(errSentinel, errOther)
	"named-compound-assign",    // named only: s, err = lits; n <<= uint8(3) style compound update of a local, bare return
	"closure-with-any-result",  // return ..., wrapAny(func() (any, error) { return 42, nil }): a closure result of type any is no error
}

func zeroExprs(sh int, v int) []string {
	var out []string
	for _, t := range shapes[sh].types {
		out = append(out, lit(t, v))
	}
	return out
}

// body renders function i of the program. literalOnly reports whether every return lists only literal expressions.
func (p Prog) body(i int) (src string, want [][]string) {
	sh := p.Shapes[i]
	form := forms[p.Forms[i]]
	k := p.Callee[i]
	ts := shapes[sh].types
	ret := func(v int) string { return "return " + strings.Join(zeroExprs(sh, v), ", ") }
	wantOf := func(vs ...int) [][]string {
		w := make([][]string, len(ts))
		for pos, t := range ts {
			for _, v := range vs {
				w[pos] = append(w[pos], litValue(t, v))
			}
		}
		return w
	}
	sameShape := p.Shapes[k] == sh
	switch form {
	case "literals":
		return ret(0), wantOf(0)
	case "two-returns-if":
		return "if cond {\n\t\t" + ret(0) + "\n\t}\n\t" + ret(1), wantOf(0, 1)
	case "switch-returns":
		return "switch {\n\tcase cond:\n\t\t" + ret(0) + "\n\tdefault:\n\t\t" + ret(1) + "\n\t}", wantOf(0, 1)
	case "local-iota-consts":
		var e1, e2 []string
		for _, t := range ts {
			switch t {
			case "int":
				e1, e2 = append(e1, "on"), append(e2, "unit")
			case "string":
				e1, e2 = append(e1, "name"), append(e2, "name")
			default:
				e1, e2 = append(e1, "nil"), append(e2, "nil")
			}
		}
		return "const (\n\t\toff = iota\n\t\ton\n\t\tunit = 1 << (10 * iota)\n\t)\n\tconst name = \"n\" + string(rune('a'+iota))\n\t_, _, _, _ = off, on, unit, name\n\tif cond {\n\t\treturn " + strings.Join(e1, ", ") + "\n\t}\n\treturn " + strings.Join(e2, ", "), nil
	case "own-call-then-forward":
		first := ""
		if ts[len(ts)-1] == "error" {
			exprs := zeroExprs(sh, 0)
			exprs[len(exprs)-1] = "dep.Fail()"
			first = "if cond {\n\t\treturn " + strings.Join(exprs, ", ") + "\n\t}\n\t"
		} else {
			first = "if cond {\n\t\treturn dep.Name()\n\t}\n\t"
		}
		q := p
		q.Forms = append([]int{}, p.Forms...)
		q.Forms[i] = 3 // "forward-call" (falls back to call-assign-return when the shapes differ)
		rest, _ := q.body(i)
		return first + rest, nil
	case "forward-call":
		if sameShape {
			return fmt.Sprintf("return f%d()", k), nil
		}
		fallthrough
	case "call-assign-return":
		// call fK, keep its error when it has one, return own literals otherwise
		kts := shapes[p.Shapes[k]].types
		var lhs []string
		for j := range kts {
			lhs = append(lhs, fmt.Sprintf("r%d", j))
		}
		exprs := zeroExprs(sh, 0)
		// forward positions of identical type
		for pos, t := range ts {
			for j, kt := range kts {
				if kt == t && (t == "error" || j == pos) {
					exprs[pos] = fmt.Sprintf("r%d", j)
				}
			}
		}
		use := ""
		for j := range kts {
			use += fmt.Sprintf("\n\t_ = r%d", j)
		}
		return fmt.Sprintf("%s := f%d()%s\n\treturn %s", strings.Join(lhs, ", "), k, use, strings.Join(exprs, ", ")), nil
	case "bare-return-after-assign":
		if shapes[sh].named != nil {
			return strings.Join(shapes[sh].named, ", ") + " = " + strings.Join(zeroExprs(sh, 1), ", ") + "\n\treturn", wantOf(1)
		}
		return ret(1), wantOf(1)
	case "closure-more-results":
		if ts[len(ts)-1] == "error" {
			exprs := zeroExprs(sh, 0)
			exprs[len(exprs)-1] = fmt.Sprintf("wrapErr(func() (int, string, error) { _, _ = f%d, cond; return 1, \"x\", errSentinel })", k)
			return "return " + strings.Join(exprs, ", "), nil
		}
		return ret(0), wantOf(0)
	case "closure-with-any-result":
		if ts[len(ts)-1] == "error" {
			exprs := zeroExprs(sh, 0)
			exprs[len(exprs)-1] = "wrapAny(func() (any, error) {\n\t\tif cond {\n\t\t\treturn \"cached\", nil\n\t\t}\n\t\treturn 42, errSentinel\n\t})"
			return "return " + strings.Join(exprs, ", "), nil
		}
		return ret(1), wantOf(1)
	case "closure-fewer-results":
		if ts[len(ts)-1] == "error" {
			exprs := zeroExprs(sh, 0)
			exprs[len(exprs)-1] = "wrapTwo(func() error { return errSentinel })"
			return "return " + strings.Join(exprs, ", "), nil
		}
		return ret(0), wantOf(0)
	case "labeled-loop-returns":
		return "outer:\n\tfor {\n\t\tfor i := 0; i < 2; i++ {\n\t\t\tif cond {\n\t\t\t\t" + ret(0) + "\n\t\t\t}\n\t\t\tcontinue outer\n\t\t}\n\t\t" + ret(1) + "\n\t}", wantOf(0, 1)
	case "select-and-for-returns":
		return "for {\n\t\tselect {\n\t\tcase <-ch:\n\t\t\t" + ret(0) + "\n\t\tdefault:\n\t\t\t" + ret(1) + "\n\t\t}\n\t}", wantOf(0, 1)
	case "type-switch-returns":
		return "switch anyV.(type) {\n\tcase int:\n\t\t" + ret(0) + "\n\t}\n\t{\n\t\t" + ret(1) + "\n\t}", wantOf(0, 1)
	case "goto-label-return":
		return "if cond {\n\t\tgoto done\n\t}\n\t" + ret(0) + "\ndone:\n\t" + ret(1), wantOf(0, 1)
	case "defer-and-closure-noise":
		return "defer func() { _ = func() int { return 9 }() }()\n\t" + ret(1), wantOf(1)
	case "shadowing-local-consts":
		var exprs []string
		want := make([][]string, len(ts))
		for pos, t := range ts {
			switch t {
			case "string":
				exprs = append(exprs, "w + w")
				want[pos] = []string{fmt.Sprintf("%q", fmt.Sprintf("f%df%d", i, i))}
			case "int":
				exprs = append(exprs, "n * 2")
				want[pos] = []string{fmt.Sprint(2 * (10 + i))}
			default:
				exprs = append(exprs, "nil")
				want[pos] = []string{"nil"}
			}
		}
		return fmt.Sprintf("const w = \"f%d\"\n\tconst n = %d\n\t_, _ = w, n\n\treturn %s", i, 10+i, strings.Join(exprs, ", ")), want
	case "variadic-spread-call", "variadic-listed-call":
		if ts[len(ts)-1] == "error" {
			exprs := zeroExprs(sh, 0)
			if form == "variadic-spread-call" {
				exprs[len(exprs)-1] = "joinAll(append(errList, errSentinel)...)"
				return "errs := errList\n\terrs = append(errs, errSentinel)\n\tif cond {\n\t\treturn " + strings.Join(append(append([]string{}, exprs[:len(exprs)-1]...), "joinAll(errs...)"), ", ") + "\n\t}\n\treturn " + strings.Join(exprs, ", "), nil
			}
			exprs[len(exprs)-1] = "joinAll(errSentinel, iface.Do())"
			return "return " + strings.Join(exprs, ", "), nil
		}
		return ret(0), wantOf(0)
	case "named-compound-assign":
		if shapes[sh].named != nil {
			// s is updated with += (operand of another shape than the result must not leak into the alternatives)
			return "s, err = \"b\" + \"c\", nil\n\tvar k uint8 = 3\n\tcnt := 1\n\tcnt <<= k\n\t_ = cnt\n\ts += string(rune(k))\n\treturn", nil
		}
		return ret(1), wantOf(1)
	case "interface-method":
		if ts[len(ts)-1] == "error" {
			exprs := zeroExprs(sh, 1)
			exprs[len(exprs)-1] = "iface.Do()"
			return "return " + strings.Join(exprs, ", "), nil
		}
		return "return iface.Name()", nil
	case "other-package":
		if ts[len(ts)-1] == "error" {
			exprs := zeroExprs(sh, 0)
			exprs[len(exprs)-1] = "dep.Fail()"
			return "return " + strings.Join(exprs, ", "), nil
		}
		return "return dep.Name()", nil
	}
	panic(form)
}

func (p Prog) source(name string) (string, [][][]string) {
	var b strings.Builder
	b.WriteString("package " + name + "\n\nimport (\n\t\"errors\"\n\n\t\"" + modPath + "/dep\"\n)\n\n")
	b.WriteString("var cond bool\n\nvar errSentinel = errors.New(\"sentinel\")\n\ntype doer interface {\n\tDo() error\n\tName() string\n}\n\nvar iface doer\n\nvar _ = dep.Name\n\nvar ch chan int\n\nvar anyV any\n\n")
	b.WriteString("func wrapErr(f func() (int, string, error)) error {\n\t_, _, err := f()\n\treturn err\n}\n\n")
	b.WriteString("func wrapTwo(f func() error) error { return f() }\n\n")
	b.WriteString("func wrapAny(f func() (any, error)) error {\n\t_, err := f()\n\treturn err\n}\n\n")
	b.WriteString("var errList []error\n\nfunc joinAll(errs ...error) error { return errors.Join(errs...) }\n\n")
	wants := make([][][]string, len(p.Shapes))
	// source order: f0 first, so a function calling a higher-numbered one is a caller ABOVE its callee
	// (top-down layout) and one calling a lower-numbered one is bottom-up; both occur in the enumeration
	for i := range p.Shapes {
		body, want := p.body(i)
		wants[i] = want
		fmt.Fprintf(&b, "func f%d() %s {\n\t%s\n}\n\n", i, shapes[p.Shapes[i]].decl, body)
	}
	return b.String(), wants
}

func (p Prog) String() string {
	var parts []string
	for i := range p.Shapes {
		parts = append(parts, fmt.Sprintf("f%d %s %s->f%d", i, shapes[p.Shapes[i]].name, forms[p.Forms[i]], p.Callee[i]))
	}
	return strings.Join(parts, "; ")
}

// checkProgs analyses the programs in supervised child processes: unbounded
// recursion in ResultsOf is a fatal stack overflow that cannot be recovered.
func checkProgs(c *core.Ctx, progs []Prog) {
	dir := pipe.TempDir("c14p")
	defer os.RemoveAll(dir)
	progress := dir + "/progress"
	in, _ := json.Marshal(progs)
	startAt := 0
	for restarts := 0; restarts < 200; restarts++ {
		out, errb, err := core.RunWorker("c14synth", in, progress, fmt.Sprint(startAt))
		if err == nil {
			if e := c.Absorb(out); e != nil {
				c.Internal("synthetic worker output: %v", e)
			}
			return
		}
		b, _ := os.ReadFile(progress)
		var idx, pi, fi int
		if _, e := fmt.Sscanf(string(b), "%d %d %d", &idx, &pi, &fi); e != nil {
			c.Internal("synthetic worker died before analysing anything: %v %s", err, tail(string(errb), 600))
			return
		}
		why := "crashed"
		if strings.Contains(string(errb), "stack exceeds") || strings.Contains(string(errb), "stack overflow") {
			why = "overflowed the stack (unbounded recursion)"
		}
		pp := progs[pi]
		c.Eval(1)
		c.Fail(classCrash(why), Case{Corpus: "synthetic", Unit: fmt.Sprintf("f%d of {%s}", fi, pp), Prog: &pp}, "ResultsOf(f%d) of program {%s} %s", fi, pp, why)
		startAt = idx + 1
		c.Count("child_restarts_after_fatal_crash", 1)
	}
	c.Cap("synthetic programs: more than 200 fatal crashes in one batch")
}

func synthWorker(args []string) int {
	debug.SetMaxStack(48 << 20)
	var progs []Prog
	if err := json.NewDecoder(os.Stdin).Decode(&progs); err != nil {
		return 2
	}
	progress := args[0]
	startAt := 0
	fmt.Sscan(args[1], &startAt)
	c := core.NewWorkerCtx("C14", "quick")
	analyseProgs(c, progs, progress, startAt)
	if err := c.WriteResult(os.Stdout); err != nil {
		return 2
	}
	return 0
}

func analyseProgs(c *core.Ctx, progs []Prog, progress string, startAt int) {
	dir := pipe.TempDir("c14s")
	defer os.RemoveAll(dir)
	t := pipe.Tree{
		"go.mod":     pipe.GoMod(modPath, "1.24"),
		"dep/dep.go": "package dep\n\nimport \"errors\"\n\nfunc Name() string { return \"dep\" }\n\nfunc Fail() error {\n\tif Name() == \"\" {\n\t\treturn nil\n\t}\n\treturn errors.New(\"x\")\n}\n",
	}
	wants := make([][][][]string, len(progs))
	for i, p := range progs {
		name := fmt.Sprintf("k%05d", i)
		src, w := p.source(name)
		wants[i] = w
		t["p/"+name+"/"+name+".go"] = src
	}
	if err := pipe.WriteTree(dir, t); err != nil {
		c.Internal("%v", err)
		return
	}
	realStdout := os.Stdout
	null, _ := os.OpenFile(os.DevNull, os.O_WRONLY, 0)
	os.Stdout = null
	u, err := gengotypes.Load([]string{"./p/..."}, gengotypes.WithDir(dir))
	os.Stdout = realStdout
	null.Close()
	if err != nil {
		c.Internal("load synthetic programs: %v", err)
		return
	}
	c.Trace(1)
	pf, _ := os.Create(progress)
	defer pf.Close()
	idx := 0
	first := map[string]string{} // unit -> printed result in the first universe
	defer func() {
		// the same module loaded a second time in the same process: a fresh universe must give the same
		// answers (nothing may be remembered per process under keys that recur, such as names or positions)
		if startAt > 0 || len(first) == 0 {
			return
		}
		os.Stdout = null2()
		u2, err := gengotypes.Load([]string{"./p/..."}, gengotypes.WithDir(dir))
		os.Stdout = realStdout
		if err != nil {
			c.Internal("second load: %v", err)
			return
		}
		// ... and asked in the REVERSE order (last package first, last function first): the answer for a
		// function must not depend on which other functions were asked about before
		for i := len(progs) - 1; i >= 0; i-- {
			p := progs[i]
			pkg := u2.Package(fmt.Sprintf("%s/p/k%05d", modPath, i))
			if pkg == nil {
				continue
			}
			for fi := len(p.Shapes) - 1; fi >= 0; fi-- {
				id := fmt.Sprintf("f%d of {%s}", fi, p)
				want, ok := first[id]
				fn, _ := pkg.Pkg().Scope().Lookup(fmt.Sprintf("f%d", fi)).(*types.Func)
				if !ok || fn == nil {
					continue
				}
				pf.Seek(0, 0)
				pf.Truncate(0)
				fmt.Fprintf(pf, "%d %d %d\n", 1<<30, i, fi)
				var got string
				func() {
					defer func() {
						if r := recover(); r != nil {
							got = fmt.Sprint("panic: ", r)
						}
					}()
					r, n := pkg.ResultsOf(fn)
					got = fmt.Sprint(n, " ", r.String())
				}()
				c.Trans(1)
				if got != want {
					pp := p
					c.Fail("", Case{Corpus: "synthetic", Unit: id, Prog: &pp}, "ResultsOf(%s) = %s in a second universe loaded in the same process and queried in reverse order, %s in the first (queried in source order)", id, got, want)
				}
			}
		}
	}()
	for i, p := range progs {
		path := fmt.Sprintf("%s/p/k%05d", modPath, i)
		pkg := u.Package(path)
		if pkg == nil {
			c.Internal("package %s not loaded", path)
			continue
		}
		if errs := pkgErrors(pkg); errs != "" {
			c.Internal("synthetic program does not type-check (%s): %s", p, errs)
			continue
		}
		for fi := range p.Shapes {
			idx++
			if idx-1 < startAt {
				continue
			}
			fn, _ := pkg.Pkg().Scope().Lookup(fmt.Sprintf("f%d", fi)).(*types.Func)
			if fn == nil {
				c.Internal("no f%d in %s", fi, path)
				continue
			}
			pf.Seek(0, 0)
			pf.Truncate(0)
			fmt.Fprintf(pf, "%d %d %d\n", idx-1, i, fi)
			pp := p
			id := fmt.Sprintf("f%d of {%s}", fi, p)
			judge(c, Case{Corpus: "synthetic", Unit: id, Prog: &pp}, unit{id, fn, pkg}, wants[i][fi])
			func() {
				defer func() { _ = recover() }()
				r, n := pkg.ResultsOf(fn)
				first[id] = fmt.Sprint(n, " ", r.String())
			}()
		}
	}
}

func null2() *os.File {
	f, _ := os.OpenFile(os.DevNull, os.O_WRONLY, 0)
	return f
}

func pkgErrors(p gengotypes.Package) string {
	// a package with type errors has an incomplete scope: detect through the types.Package
	if !p.Pkg().Complete() {
		return "incomplete package"
	}
	return ""
}

func runSynthetic(c *core.Ctx) {
	c.Bound("synthetic_shapes", []string{"T", "(T,error)", "(T,U,error)", "named"})
	c.Bound("synthetic_return_forms", forms)
	maxFuncs := c.Pick(2, 3)
	c.Bound("synthetic_max_functions", maxFuncs)
	var batch []Prog
	flush := func() {
		if len(batch) > 0 {
			checkProgs(c, batch)
			batch = nil
		}
	}
	total := 0
	for n := 1; n <= maxFuncs; n++ {
		shapeSets := [][]int{}
		// n<=2: all shape combinations; n=3: all functions share one shape (each of the 4)
		if n <= 2 {
			var rec func(cur []int)
			rec = func(cur []int) {
				if len(cur) == n {
					shapeSets = append(shapeSets, append([]int{}, cur...))
					return
				}
				for s := range shapes {
					rec(append(cur, s))
				}
			}
			rec(nil)
		} else {
			for s := range shapes {
				shapeSets = append(shapeSets, []int{s, s, s})
			}
		}
		for _, ss := range shapeSets {
			var rec func(i int, fs, ks []int)
			rec = func(i int, fs, ks []int) {
				if i == n {
					total++
					if !c.Next() {
						return
					}
					batch = append(batch, Prog{Shapes: ss, Forms: append([]int{}, fs...), Callee: append([]int{}, ks...)})
					if len(batch) >= 400 {
						flush()
					}
					return
				}
				for f := range forms {
					usesCallee := forms[f] == "forward-call" || forms[f] == "call-assign-return" || forms[f] == "closure-more-results"
					for k := 0; k < n; k++ {
						if !usesCallee && k > 0 {
							break
						}
						rec(i+1, append(fs, f), append(ks, k))
					}
				}
			}
			rec(0, nil, nil)
		}
	}
	flush()
	c.Bound("synthetic_programs", total)
	c.Sample(Prog{Shapes: []int{1, 1}, Forms: []int{3, 3}, Callee: []int{1, 0}}.String())
}
