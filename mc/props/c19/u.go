package c19

import "unicode"

var (
	unicodeIsLower = unicode.IsLower
	unicodeIsUpper = unicode.IsUpper
	unicodeIsDigit = unicode.IsDigit
)
