//go:build racepass

package c19

import (
	"fmt"
	"sync"

	"verif/mc/core"
)

func init() {
	core.RegisterWorker("c19race", func(args []string) int {
		inputs := []string{"vimRPCPluginS3", "alpha_beta", "HTTPServer id", "böse_Überraschung", "a_b c-d", "ID_of_thing"}
		ref := map[string][]string{}
		for _, in := range inputs {
			for f := range seqFuncs {
				ref[in] = append(ref[in], callF(f, in))
			}
		}
		bad := 0
		var mu sync.Mutex
		for round := 0; round < 100; round++ {
			var wg sync.WaitGroup
			start := make(chan struct{})
			for g := 0; g < 8; g++ {
				wg.Add(1)
				go func(g int) {
					defer wg.Done()
					<-start
					for k := 0; k < 6; k++ {
						in := inputs[(g+k)%len(inputs)]
						for f := range seqFuncs {
							if got := callF(f, in); got != ref[in][f] {
								mu.Lock()
								bad++
								if bad < 5 {
									fmt.Printf("concurrent result mismatch: %s(%q) = %q, sequential %q\n", seqFuncs[f], in, got, ref[in][f])
								}
								mu.Unlock()
							}
						}
					}
				}(g)
			}
			close(start)
			wg.Wait()
		}
		if bad > 0 {
			return 1
		}
		return 0
	})
}
