// Package c19: camelcase.Split is total and lossless; the six converters are
// total and pure. Exhaustive over all strings up to a length bound over a
// rune-class alphabet (one representative per class the code distinguishes,
// plus invalid UTF-8 bytes at every position).
package c19

import (
	"encoding/json"
	"fmt"
	"os"
	"os/exec"
	"path/filepath"
	"strings"
	"sync"
	"unicode/utf8"

	"github.com/octohelm/gengo/pkg/camelcase"
	"github.com/octohelm/gengo/pkg/gengo"
	"verif/mc/core"
)

var alphabet = []string{"a", "Z", "7", "_", "-", ".", " ", "é", "Ü", "ǅ", "٣", "世", " "}
var invalid = []string{"\xff", "\xe2\x82", "\xc0\xaf"}

type conv struct {
	name string
	f    func(string) string
}

var convs = []conv{
	{"LowerSnakeCase", camelcase.LowerSnakeCase},
	{"UpperSnakeCase", camelcase.UpperSnakeCase},
	{"LowerKebabCase", camelcase.LowerKebabCase},
	{"UpperKebabCase", camelcase.UpperKebabCase},
	{"LowerCamelCase", camelcase.LowerCamelCase},
	{"UpperCamelCase", camelcase.UpperCamelCase},
	// the re-exports used by generators
	{"gengo.LowerSnakeCase", gengo.LowerSnakeCase},
	{"gengo.UpperSnakeCase", gengo.UpperSnakeCase},
	{"gengo.LowerKebabCase", gengo.LowerKebabCase},
	{"gengo.UpperKebabCase", gengo.UpperKebabCase},
	{"gengo.LowerCamelCase", gengo.LowerCamelCase},
	{"gengo.UpperCamelCase", gengo.UpperCamelCase},
}

type Case struct {
	S      string `json:"s_quoted"` // strconv-quoted so that invalid bytes survive JSON
	Before string `json:"before_quoted,omitempty"`
	Seq    []Op   `json:"fresh_process_sequence,omitempty"`
}

// Op is one call of a fresh-process sequence: function index (0..5 = the six
// converters, 6 = Split) and quoted input.
type Op struct {
	F int    `json:"f"`
	S string `json:"s_quoted"`
}

func q(s string) string { return fmt.Sprintf("%+q", s) }
func unq(s string) string {
	var out string
	if _, err := fmt.Sscanf(s, "%q", &out); err != nil {
		return s
	}
	return out
}

func try(f func()) (p any) {
	defer func() { p = recover() }()
	f()
	return nil
}

// reference outputs of the converters on a cold call, keyed by input
func checkOne(c *core.Ctx, s string) { checkOneOf(c, s, convs, true) }

func checkOneOf(c *core.Ctx, s string, convs []conv, twice bool) {
	cs := Case{S: q(s)}
	c.Eval(1)
	c.Trans(1 + len(convs)*2)
	var words []string
	if p := try(func() { words = camelcase.Split(s) }); p != nil {
		class := ""
		if r, _ := utf8.DecodeRuneInString(s); utf8.ValidString(s) && s != "" && !isLetterDigitClass(r) {
			class = "C19-split-leading-other-panics"
		}
		c.Fail(class, cs, "Split(%s) panicked: %v", q(s), p)
		c.State("panic")
	} else {
		if strings.Join(words, "") != s {
			c.Fail("", cs, "Split(%s) = %q: concatenation %q differs from the input", q(s), words, strings.Join(words, ""))
		}
		for _, w := range words {
			if w == "" {
				c.Fail("", cs, "Split(%s) = %q contains an empty word", q(s), words)
				break
			}
		}
		if !utf8.ValidString(s) && !(len(words) == 1 && words[0] == s) {
			c.Fail("", cs, "Split(%s) = %q: invalid UTF-8 must come back as one word", q(s), words)
		}
		if s == "" && len(words) != 0 {
			c.Fail("", cs, "Split(\"\") = %q, want no words", words)
		}
		c.State(fmt.Sprintf("w%d/%s", len(words), classPattern(words)))
		if len(words) > 1 {
			c.Nontrivial(s)
		}
		if twice {
			// the answer belongs to the caller: writing to it must not change what the next caller gets
			first := strings.Join(words, "\x00")
			scribble(words)
			var again []string
			if p := try(func() { again = camelcase.Split(s) }); p != nil || strings.Join(again, "\x00") != first {
				c.Fail("C19-answer-shared-with-later-callers", cs, "Split(%s) returned %q; after the caller wrote to that slice, Split(%s) returns %q (panic=%v)", q(s), strings.Split(first, "\x00"), q(s), again, p)
			}
		}
	}
	for _, cv := range convs {
		var a, b string
		if p := try(func() { a = cv.f(s) }); p != nil {
			class := ""
			if r, _ := utf8.DecodeRuneInString(s); utf8.ValidString(s) && s != "" && !isLetterDigitClass(r) {
				class = "C19-split-leading-other-panics"
			}
			c.Fail(class, cs, "%s(%s) panicked: %v", cv.name, q(s), p)
			continue
		}
		if !twice {
			continue
		}
		// (between the two calls another caller splits the same string and writes to what it got)
		_ = try(func() { scribble(camelcase.Split(s)) })
		if p := try(func() { b = cv.f(s) }); p != nil || a != b {
			c.Fail("", cs, "%s(%s) is not pure: first %q then %q (panic=%v)", cv.name, q(s), a, b, p)
		}
	}
}

func scribble(words []string) {
	for i := range words {
		words[i] = "!" + strings.ToLower(words[i]) + "!"
	}
}

// splitOnly applies the Split part of the oracle (totality, losslessness, non-empty words).
func splitOnly(c *core.Ctx, s string) {
	c.Eval(1)
	c.Trans(1)
	var words []string
	if p := try(func() { words = camelcase.Split(s) }); p != nil {
		c.Fail("", Case{S: q(s)}, "Split(%s) panicked: %v", q(s), p)
		return
	}
	n := 0
	for _, w := range words {
		if w == "" {
			c.Fail("", Case{S: q(s)}, "Split(%s) = %q contains an empty word", q(s), words)
			return
		}
		n += len(w)
	}
	if n != len(s) || strings.Join(words, "") != s {
		c.Fail("", Case{S: q(s)}, "Split(%s) = %q: concatenation differs from the input", q(s), words)
	}
}

func isLetterDigitClass(r rune) bool {
	// the classes Split treats as lower / upper / digit
	return isLower(r) || isUpper(r) || isDigit(r)
}

func classPattern(words []string) string {
	var b strings.Builder
	for _, w := range words {
		r, _ := utf8.DecodeRuneInString(w)
		switch {
		case isLower(r):
			b.WriteByte('l')
		case isUpper(r):
			b.WriteByte('U')
		case isDigit(r):
			b.WriteByte('9')
		default:
			b.WriteByte('.')
		}
	}
	return b.String()
}

// purity across calls: f(s) after f(t) equals f(s) computed first.
func checkPair(c *core.Ctx, t, s string) {
	cs := Case{S: q(s), Before: q(t)}
	c.Eval(1)
	c.Trans(3 * len(convs))
	for _, cv := range convs {
		var ref, got string
		if try(func() { ref = cv.f(s) }) != nil {
			continue // totality is reported by checkOne
		}
		_ = try(func() { _ = cv.f(t) })
		if p := try(func() { got = cv.f(s) }); p != nil || got != ref {
			c.Fail("", cs, "%s(%s) after %s(%s): %q, alone: %q (panic=%v)", cv.name, q(s), cv.name, q(t), got, ref, p)
		}
	}
	var w1, w2 []string
	if try(func() { w1 = camelcase.Split(s) }) == nil {
		_ = try(func() { _ = camelcase.Split(t) })
		if p := try(func() { w2 = camelcase.Split(s) }); p != nil || strings.Join(w1, "\x00") != strings.Join(w2, "\x00") {
			c.Fail("", cs, "Split(%s) after Split(%s): %q, alone: %q", q(s), q(t), w2, w1)
		}
	}
}

func build(ch *core.Chooser, alpha []string, maxLen int) string {
	var b strings.Builder
	for i := 0; i < maxLen; i++ {
		k := ch.Choose(len(alpha) + 1)
		if k == 0 {
			break
		}
		b.WriteString(alpha[k-1])
	}
	return b.String()
}

func run(c *core.Ctx) {
	maxLen := c.Pick(4, 6)
	invLen := c.Pick(2, 3)
	pairLen := 2
	c.Bound("alphabet", alphabet)
	c.Bound("max_runes", maxLen)
	c.Bound("invalid_sequences", []string{q(invalid[0]), q(invalid[1]), q(invalid[2])})
	c.Bound("max_runes_around_invalid_sequence", invLen)
	c.Bound("purity_pairs_max_runes", pairLen)

	// (1) all strings up to maxLen
	core.Explore(c, core.ExploreOpts{Bound: -1}, func(ch *core.Chooser, _ bool) {
		s := build(ch, alphabet, maxLen)
		if !c.Next() {
			return
		}
		checkOne(c, s)
		if len(s) > 0 && len(s) < 6 {
			c.Sample(map[string]any{"input": q(s)})
		}
	})
	// (2) one invalid byte sequence inserted at every position of every string up to invLen
	core.Explore(c, core.ExploreOpts{Bound: -1}, func(ch *core.Chooser, _ bool) {
		s := build(ch, alphabet, invLen)
		if !c.Next() {
			return
		}
		rs := []rune(s)
		for pos := 0; pos <= len(rs); pos++ {
			for _, bad := range invalid {
				checkOne(c, string(rs[:pos])+bad+string(rs[pos:]))
			}
		}
	})
	// (2b) the rune dimension in full: EVERY Unicode scalar value alone and between ASCII letters
	// (table / range boundaries such as U+00FF, U+0100, U+FFFF, U+10000 are single points of this space)
	c.Bound("every_unicode_scalar_value_in_contexts", []string{"r", "a+r+Z", "Z+r+a"})
	for r := rune(0); r <= utf8.MaxRune; r++ {
		if r >= 0xD800 && r <= 0xDFFF {
			continue
		}
		if !c.Next() {
			continue
		}
		for _, s := range []string{string(r), "a" + string(r) + "Z", "Z" + string(r) + "a"} {
			checkOneOf(c, s, convs[:6], c.Thorough())
		}
	}
	// (2c) letters are not interchangeable where code special-cases one of them (a plural 's', an 'I' of
	// an initialism): every string of <=4 characters over [A-Za-z0-9_] for Split, every string of <=3
	// (thorough 4) printable ASCII characters for Split and the six converters
	ident := []string{}
	for r := 'A'; r <= 'Z'; r++ {
		ident = append(ident, string(r))
	}
	for r := 'a'; r <= 'z'; r++ {
		ident = append(ident, string(r))
	}
	for r := '0'; r <= '9'; r++ {
		ident = append(ident, string(r))
	}
	ident = append(ident, "_")
	var printable []string
	for r := ' '; r <= '~'; r++ {
		printable = append(printable, string(r))
	}
	identLen, printLen := c.Pick(4, 5), c.Pick(3, 4)
	c.Bound("identifier_alphabet_A-Za-z0-9_underscore_max_len_split_only", identLen)
	c.Bound("printable_ascii_max_len_all_converters", printLen)
	var walk func(alpha []string, prefix string, left int, f func(string))
	walk = func(alpha []string, prefix string, left int, f func(string)) {
		f(prefix)
		if left == 0 {
			return
		}
		for _, a := range alpha {
			walk(alpha, prefix+a, left-1, f)
		}
	}
	// sharded by the first two characters
	for _, a := range ident {
		for _, b := range ident {
			if !c.Next() {
				continue
			}
			walk(ident, a+b, identLen-2, func(s string) { splitOnly(c, s) })
		}
	}
	for _, a := range printable {
		for _, b := range printable {
			if !c.Next() {
				continue
			}
			walk(printable, a+b, printLen-2, func(s string) { checkOneOf(c, s, convs[:6], false) })
		}
	}
	runSequences(c)
	if c.Shard == 0 {
		racePass(c)
	}
	// (3) all ordered pairs of strings up to pairLen: purity across calls
	var small []string
	core.Explore(c, core.ExploreOpts{Bound: -1}, func(ch *core.Chooser, _ bool) {
		small = append(small, build(ch, alphabet, pairLen))
	})
	small = append(small, invalid[0], "a"+invalid[1])
	for _, t := range small {
		for _, s := range small {
			if !c.Next() {
				continue
			}
			checkPair(c, t, s)
		}
	}
}

func replay(c *core.Ctx, raw json.RawMessage) {
	var cs Case
	if err := json.Unmarshal(raw, &cs); err != nil {
		c.Internal("bad case: %v", err)
		return
	}
	if len(cs.Seq) > 0 {
		checkSeq(c, cs.Seq)
		return
	}
	if unq(cs.S) == "free-running -race pass" {
		racePass(c)
		return
	}
	if cs.Before != "" {
		checkPair(c, unq(cs.Before), unq(cs.S))
		return
	}
	checkOne(c, unq(cs.S))
}

func init() {
	core.RegisterWorker("c19seq", seqWorker)
	core.Register(&core.Prop{
		ID: "C19", Level: "model_checking", Run: run, Replay: replay,
		Rule: "every string of <=N runes over a 13-symbol rune-class alphabet (lower, upper, digit, '_', '-', '.', space, non-ASCII lower/upper, title-case letter, non-ASCII digit, CJK, NBSP), every such string <=M runes with one invalid UTF-8 sequence inserted at every position, every Unicode scalar value (1,112,064) alone and between two ASCII letters, every string of <=4 (5) characters over [A-Za-z0-9_] (Split) and of <=3 (4) printable ASCII characters (Split and converters), all ordered pairs of strings <=2 runes in one process, and every call sequence of length 2 (20 inputs) / 3 (6 inputs) / 2 with two different functions (6 inputs) executed in a FRESH process and compared with the single-call result of a fresh process; a case is non-trivial when Split yields more than one word; states = distinct (word count, word-class pattern) outcomes",
		Assumptions: []string{
			"the rune classes the code branches on (unicode.IsLower/IsUpper/IsDigit/IsLetter/IsGraphic, ASCII vs multi-byte) are each represented in the alphabet",
			"purity is observed through return values of consecutive calls in one process, of call sequences in fresh processes and - as a complement outside the exhaustive part - of concurrent callers under the race detector",
		},
	})
}

func isLower(r rune) bool { return unicodeIsLower(r) }
func isUpper(r rune) bool { return unicodeIsUpper(r) }
func isDigit(r rune) bool { return unicodeIsDigit(r) }

// ---------------------------------------------------------------------------
// purity over call histories that start in a fresh process

var seqFuncs = []string{"LowerSnakeCase", "UpperSnakeCase", "LowerKebabCase", "UpperKebabCase", "LowerCamelCase", "UpperCamelCase", "Split"}

func callF(f int, s string) (out string) {
	defer func() {
		if r := recover(); r != nil {
			out = fmt.Sprintf("PANIC: %v", r)
		}
	}()
	if f == 6 {
		return strings.Join(camelcase.Split(s), "\x00")
	}
	return convs[f].f(s)
}

func seqWorker(args []string) int {
	var ops []Op
	if err := json.NewDecoder(os.Stdin).Decode(&ops); err != nil {
		fmt.Fprintln(os.Stderr, err)
		return 2
	}
	outs := make([]string, len(ops))
	for i, op := range ops {
		outs[i] = q(callF(op.F, unq(op.S)))
	}
	_ = json.NewEncoder(os.Stdout).Encode(outs)
	return 0
}

func runSeq(c *core.Ctx, ops []Op) ([]string, bool) {
	in, _ := json.Marshal(ops)
	out, errb, err := core.RunWorker("c19seq", in)
	if err != nil {
		c.Internal("sequence worker failed: %v %s", err, errb)
		return nil, false
	}
	var outs []string
	if err := json.Unmarshal(out, &outs); err != nil || len(outs) != len(ops) {
		c.Internal("sequence worker output: %v %q", err, out)
		return nil, false
	}
	c.Trans(len(ops))
	return outs, true
}

var refMu sync.Mutex
var refCache = map[Op]string{}

// reference: the result of the call as the only call of a fresh process
func single(c *core.Ctx, op Op) (string, bool) {
	refMu.Lock()
	v, ok := refCache[op]
	refMu.Unlock()
	if ok {
		return v, true
	}
	outs, ok := runSeq(c, []Op{op})
	if !ok {
		return "", false
	}
	refMu.Lock()
	refCache[op] = outs[0]
	refMu.Unlock()
	return outs[0], true
}

func checkSeq(c *core.Ctx, ops []Op) {
	c.Eval(1)
	c.Trace(1)
	outs, ok := runSeq(c, ops)
	if !ok {
		return
	}
	c.State("seq/" + strings.Join(outs, "/"))
	if len(ops) > 1 {
		c.Nontrivial(fmt.Sprint(ops))
	}
	for i, op := range ops {
		ref, ok := single(c, op)
		if !ok {
			return
		}
		if outs[i] != ref {
			c.Fail("", Case{Seq: ops}, "in a fresh process, call %d of the sequence %s returned %s, but the same call as the only call of a fresh process returns %s", i+1, fmtOps(ops), outs[i], ref)
			return
		}
	}
}

func fmtOps(ops []Op) string {
	var parts []string
	for _, op := range ops {
		parts = append(parts, fmt.Sprintf("%s(%s)", seqFuncs[op.F], op.S))
	}
	return strings.Join(parts, "; ")
}

// inputs chosen so that words recur at different positions, in different
// cases and across inputs (the shapes a memo or scratch buffer would confuse)
var seqInputs = []string{"a", "a_b", "b_a", "a_a", "ab", "aB", "Ba", "a b", "ID", "id_a", "a_id", "A", "7a", "a7", "_a", "é_a", "a_é", "AB", "aBa", ""}
var seqInputsSmall = []string{"a_b", "b_a", "a_a", "aB", "id_a", "A"}

func runSequences(c *core.Ctx) {
	c.Bound("fresh_process_sequence_inputs", seqInputs)
	c.Bound("fresh_process_sequence_inputs_len3_and_cross_function", seqInputsSmall)
	par := make(chan struct{}, 4)
	var wg sync.WaitGroup
	do := func(ops []Op) {
		if !c.Next() {
			return
		}
		wg.Add(1)
		par <- struct{}{}
		go func() {
			defer func() { <-par; wg.Done() }()
			checkSeq(c, ops)
		}()
	}
	// all sequences of length 2 with one function
	for f := range seqFuncs {
		for _, t := range seqInputs {
			for _, s := range seqInputs {
				do([]Op{{f, q(t)}, {f, q(s)}})
			}
		}
	}
	// all sequences of length 3 with one function over the small alphabet
	for f := range seqFuncs {
		for _, a := range seqInputsSmall {
			for _, b := range seqInputsSmall {
				for _, d := range seqInputsSmall {
					do([]Op{{f, q(a)}, {f, q(b)}, {f, q(d)}})
				}
			}
		}
	}
	// all sequences of length 2 with two different functions over the small alphabet
	for f := range seqFuncs {
		for g := range seqFuncs {
			if f == g {
				continue
			}
			for _, t := range seqInputsSmall {
				for _, s := range seqInputsSmall {
					do([]Op{{f, q(t)}, {g, q(s)}})
				}
			}
		}
	}
	wg.Wait()
	c.Sample(map[string]any{"fresh_process_sequence": fmtOps([]Op{{4, q("a_b")}, {4, q("b_a")}})})
}

// ---------------------------------------------------------------------------
// complement: the same functions called from many goroutines under the race
// detector (a pure function can be called concurrently; shared scratch state
// that sequential histories cannot reveal shows as a data race or a wrong result)

func racePass(c *core.Ctx) {
	bin := filepath.Join(core.Root(), "bin", "vcheck-race")
	if _, err := os.Stat(bin); err != nil {
		c.Internal("race binary missing: %v", err)
		return
	}
	cmd := exec.Command(bin, "worker", "c19race")
	cmd.Env = append(os.Environ(), "GORACE=halt_on_error=1 exitcode=66", "GOMAXPROCS=8")
	out, err := cmd.CombinedOutput()
	c.Count("race_pass_runs", 1)
	if err == nil {
		return
	}
	ee, ok := err.(*exec.ExitError)
	if ok && ee.ExitCode() == 66 {
		_ = os.MkdirAll(filepath.Join(core.Root(), "replays"), 0o755)
		rp := filepath.Join(core.Root(), "replays", "C19-race-report.txt")
		_ = os.WriteFile(rp, out, 0o644)
		c.Fail("", Case{S: q("free-running -race pass")}, "data race reported by the race detector with concurrent callers of the converters (report in %s):\n%s", rp, tailStr(string(out), 1500))
		return
	}
	if ok && ee.ExitCode() == 1 {
		c.Fail("", Case{S: q("free-running -race pass")}, "concurrent callers of the converters observed a wrong result or a panic:\n%s", tailStr(string(out), 1500))
		return
	}
	c.Internal("race pass failed to run: %v\n%s", err, tailStr(string(out), 800))
}

func tailStr(s string, n int) string {
	if len(s) > n {
		return s[len(s)-n:]
	}
	return s
}
