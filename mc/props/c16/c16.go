// Package c16: runtimedoc output returns the source documentation at run time.
// Type shapes x type-doc texts x field-doc texts are written to packages,
// generated (twice) by the real runtimedoc generator through the real pipeline,
// compiled with a harness-written check file and run; the expectations come
// from the harness' own model of the source it wrote.
package c16

import (
	"encoding/json"
	"fmt"
	"os"
	"strconv"
	"strings"

	"verif/mc/core"
	"verif/mc/gocheck"
	"verif/mc/pipe"
	"verif/mc/seamctl"
)

const modPath = "x.io/test"

var docTexts = []struct {
	name  string
	lines []string // as written after "// " ($T = name of the documented thing)
}{
	{"none", nil},
	{"plain", []string{"is plain."}},
	{"leading-name", []string{"$T is named first.", "second line"}},
	{"quotes", []string{`says "quoted" and 'single'.`}},
	{"backslash", []string{`has a back\slash and \n and \\.`}},
	{"backquote", []string{"has a ` backquote `` twice."}},
	{"percent", []string{"is 100% sure, %v %T %d %%."}},
	{"placeholder", []string{"uses @name' and @x and @'."}},
	{"unicode", []string{"ünïcödé 世界  nbsp."}},
	{"blank-line-inside", []string{"first paragraph", "", "second paragraph"}},
	{"tag-line-inside", []string{"before the tag", "+gengo:x=1", "after the tag"}},
	{"name-twice", []string{"$T $Ts are counted."}},
	{"name-twice-as-word", []string{"$T $T of measure, $T again."}},
	{"longer-word-with-name-prefix", []string{"$Taque word, not the name."}},
	// a gofmt-style code block (lines indented with a tab) whose lines start with the tag markers: doc text, not tags
	{"code-block-with-marker-lines", []string{"shows a patch and a decorator:", "", "\t+added line", "\t@@ -1,2 +1,2 @@", "\t-removed line", "\t@name(\"arg\")"}},
	// lines shaped like `word:value` (what a linter directive looks like when written WITHOUT the blank after the slashes)
	{"word-colon-value-lines", []string{"port:8080 is the default.", "json:name of the field, debug:0 info:1", "nolint:unused is what a directive looks like"}},
	// a backquote TOGETHER with quotes and backslashes in one line (no single Go string syntax takes it verbatim)
	{"backquote-with-quote-and-backslash", []string{"is decoded from `json:\"name\"` and matches `\\d+` or \"a\\b\"."}},
	{"leading-name-then-odd-spacing", []string{"$T  has two blanks.  Two more,\ta tab, a no-break\u00a0space and an ideographic\u3000space.", "a second line   with runs of blanks"}},
}

// expected doc lines for a thing named name
func expectDoc(text int, name string, stripName bool) []string {
	var out []string
	for _, l := range docTexts[text].lines {
		l = strings.ReplaceAll(l, "$T", name)
		if strings.HasPrefix(l, "+") || strings.HasPrefix(l, "@") {
			continue // tag line
		}
		out = append(out, l)
	}
	if stripName && len(out) > 0 {
		// leading name removed: only when the first word IS the name
		if out[0] == name {
			out = out[1:]
		} else if strings.HasPrefix(out[0], name+" ") {
			out[0] = strings.TrimSpace(strings.TrimPrefix(out[0], name))
		}
	}
	return out
}

func comment(text int, name, indent string) string {
	var b strings.Builder
	for _, l := range docTexts[text].lines {
		l = strings.ReplaceAll(l, "$T", name)
		if l == "" {
			b.WriteString(indent + "//\n")
		} else if strings.HasPrefix(l, "\t") {
			b.WriteString(indent + "//" + l + "\n") // the form gofmt gives a code block
		} else {
			b.WriteString(indent + "// " + l + "\n")
		}
	}
	return b.String()
}

var shapes = []string{
	"exported-struct", "unexported-struct", "generic-struct", "embeds-struct-by-value", "embeds-struct-by-pointer",
	"only-unexported-fields", "defined-string", "defined-map-slice-func", "interface", "odd-field-types", "embeds-unexported-and-non-struct",
	"fields-of-generic-instantiations-and-local-named-types",
	"several-embedded-structs-first-one-documented",
	"structs-composed-only-of-embedded-structs",
	"first-type-in-name-order-renders-nothing",
}

type Prog struct {
	Shape    int `json:"shape"`
	TypeDoc  int `json:"type_doc"`
	FieldDoc int `json:"field_doc"`
}

// earlier: the same declarations with the next doc texts of the menu
func earlier(p Prog) Prog {
	q := Prog{Shape: p.Shape, TypeDoc: (p.TypeDoc + 1) % len(docTexts), FieldDoc: p.FieldDoc}
	for {
		q.FieldDoc = (q.FieldDoc + 1) % len(docTexts)
		if l := docTexts[q.FieldDoc].lines; len(l) == 0 || !strings.HasPrefix(l[0], "$T") {
			return q
		}
	}
}

func (p Prog) String() string {
	return fmt.Sprintf("%s typedoc=%s fielddoc=%s", shapes[p.Shape], docTexts[p.TypeDoc].name, docTexts[p.FieldDoc].name)
}

func lit(lines []string) string {
	if lines == nil {
		return "nil"
	}
	var parts []string
	for _, l := range lines {
		parts = append(parts, strconv.Quote(l))
	}
	return "[]string{" + strings.Join(parts, ", ") + "}"
}

// source renders the package and its check file.
func (p Prog) source(pkg string) (src, check string) {
	var b, cb strings.Builder
	b.WriteString("// Package " + pkg + " is a C16 case.\n// +gengo:runtimedoc\npackage " + pkg + "\n\n")
	if (p.Shape+p.TypeDoc+p.FieldDoc)%3 == 0 {
		// every third program is "generated from a grammar": a //line directive renames the file and renumbers
		// its lines from here on
		b.WriteString("//line shapes.y:12\n")
	}
	cb.WriteString("package " + pkg + "\n\nimport \"" + modPath + "/verifkit\"\n\nvar _ = verifkit.HasRuntimeDoc\n\nfunc VerifRun() (checks int, fails []string) {\n")
	expect := func(label, ptr string, names []string, want []string, ok bool) {
		fmt.Fprintf(&cb, "\tverifkit.CheckDoc(&checks, &fails, %q, %s, %s, %s, %v)\n", label, ptr, lit(names), lit(want), ok)
	}
	td := func(name string) string { return comment(p.TypeDoc, name, "") }
	fd := func(name string) string { return comment(p.FieldDoc, name, "\t") }
	typeDoc := func(name string) []string { return expectDoc(p.TypeDoc, name, true) }
	fieldDoc := func(name string) []string { return expectDoc(p.FieldDoc, name, true) }
	switch shapes[p.Shape] {
	case "exported-struct":
		b.WriteString(td("T") + "type T struct {\n" + fd("F") + "\tF int\n\tG string\n\th bool\n}\n")
		expect("T", "new(T)", nil, typeDoc("T"), true)
		expect("T.F", "new(T)", []string{"F"}, fieldDoc("F"), true)
		expect("T.G", "new(T)", []string{"G"}, []string{}, true)
		expect("T.h", "new(T)", []string{"h"}, nil, false)
		expect("T.NoSuch", "new(T)", []string{"NoSuch"}, nil, false)
	case "unexported-struct":
		b.WriteString(td("t") + "type t struct {\n" + fd("F") + "\tF int\n}\n\nvar _ t\n")
		fmt.Fprintf(&cb, "\tchecks++\n\tif verifkit.HasRuntimeDoc(new(t)) {\n\t\tfails = append(fails, \"unexported type t is covered\")\n\t}\n")
	case "generic-struct":
		b.WriteString(td("G") + "type G[X any] struct {\n" + fd("F") + "\tF X\n\tV int\n}\n")
		expect("G[int]", "new(G[int])", nil, typeDoc("G"), true)
		expect("G[int].F", "new(G[int])", []string{"F"}, fieldDoc("F"), true)
		expect("G[string].V", "new(G[string])", []string{"V"}, []string{}, true)
		expect("G[int].NoSuch", "new(G[int])", []string{"NoSuch"}, nil, false)
	case "embeds-struct-by-value", "embeds-struct-by-pointer":
		star := ""
		if shapes[p.Shape] == "embeds-struct-by-pointer" {
			star = "*"
		}
		b.WriteString(td("T") + "type T struct {\n\t" + star + "E\n" + fd("F") + "\tF int\n}\n\n// E is embedded.\ntype E struct {\n" + fd("EF") + "\tEF string\n\tEG int\n}\n")
		ptr := "new(T)"
		if star != "" {
			ptr = "&T{E: new(E)}"
		}
		expect("T", ptr, nil, typeDoc("T"), true)
		expect("T.F", ptr, []string{"F"}, fieldDoc("F"), true)
		expect("T.EF (delegated)", ptr, []string{"EF"}, fieldDoc("EF"), true)
		expect("T.EG (delegated)", ptr, []string{"EG"}, []string{}, true)
		expect("T.NoSuch", ptr, []string{"NoSuch"}, nil, false)
		expect("E", "new(E)", nil, []string{"is embedded."}, true)
	case "only-unexported-fields":
		b.WriteString(td("T") + "type T struct {\n" + fd("f") + "\tf int\n}\n\nvar _ = T{}.f\n")
	case "defined-string":
		b.WriteString(td("S") + "type S string\n")
		expect("S", "new(S)", nil, typeDoc("S"), true)
		expect("S.x", "new(S)", []string{"x"}, nil, false)
	case "defined-map-slice-func":
		b.WriteString(td("M") + "type M map[string]int\n\n" + td("L") + "type L []int\n\n" + td("Fn") + "type Fn func(int) string\n")
		expect("M", "new(M)", nil, typeDoc("M"), true)
		expect("L", "new(L)", nil, typeDoc("L"), true)
		expect("Fn", "new(Fn)", nil, typeDoc("Fn"), true)
		expect("M.k", "new(M)", []string{"k"}, nil, false)
	case "interface":
		b.WriteString(td("I") + "type I interface {\n" + fd("M") + "\tM()\n}\n\n// T implements nothing.\ntype T struct {\n\tF I\n}\n")
		expect("T", "new(T)", nil, []string{"implements nothing."}, true)
		expect("T.F", "new(T)", []string{"F"}, []string{}, true)
	case "odd-field-types":
		b.WriteString("import \"" + modPath + "/dep\"\n\n" + td("T") + "type T struct {\n" + fd("Anon") + "\tAnon struct {\n\t\tX int\n\t}\n" + fd("Empty") + "\tEmpty struct{}\n" + fd("Foreign") + "\tForeign dep.D\n" + fd("Local") + "\tLocal Sub\n" + fd("Ptr") + "\tPtr *Sub\n}\n\n// Sub is local.\ntype Sub struct {\n\tS int\n}\n")
		expect("T", "new(T)", nil, typeDoc("T"), true)
		expect("T.Anon (not listed)", "new(T)", []string{"Anon"}, nil, false)
		expect("T.Empty (not listed)", "new(T)", []string{"Empty"}, nil, false)
		expect("T.Foreign", "new(T)", []string{"Foreign"}, fieldDoc("Foreign"), true)
		expect("T.Local", "new(T)", []string{"Local"}, fieldDoc("Local"), true)
		expect("T.Ptr", "new(T)", []string{"Ptr"}, fieldDoc("Ptr"), true)
		expect("Sub", "new(Sub)", nil, []string{"is local."}, true)
	case "fields-of-generic-instantiations-and-local-named-types":
		b.WriteString(td("T") + "type T struct {\n" + fd("F") + "\tF Box[int]\n" + fd("P") + "\tP *Box[string]\n" + fd("N") + "\tN Named\n" + fd("Q") + "\tQ hidden\n" + fd("L") + "\tL []Box[Named]\n}\n\n// Box is generic.\ntype Box[X any] struct {\n\t// the boxed value\n\tV X\n}\n\n// Named is a defined string.\ntype Named string\n\ntype hidden struct {\n\tH int\n}\n")
		expect("T", "new(T)", nil, typeDoc("T"), true)
		expect("T.F", "new(T)", []string{"F"}, fieldDoc("F"), true)
		expect("T.P", "new(T)", []string{"P"}, fieldDoc("P"), true)
		expect("T.N", "new(T)", []string{"N"}, fieldDoc("N"), true)
		expect("T.Q", "new(T)", []string{"Q"}, fieldDoc("Q"), true)
		expect("T.L", "new(T)", []string{"L"}, fieldDoc("L"), true)
		expect("Box[int]", "new(Box[int])", nil, []string{"is generic."}, true)
		expect("Box[Named].V", "new(Box[Named])", []string{"V"}, []string{"the boxed value"}, true)
		expect("Named", "new(Named)", nil, []string{"is a defined string."}, true)
		fmt.Fprintf(&cb, "\tchecks++\n\tif verifkit.HasRuntimeDoc(new(hidden)) {\n\t\tfails = append(fails, \"unexported type hidden is covered\")\n\t}\n")
	case "several-embedded-structs-first-one-documented":
		// only fields of the UNdocumented embeds are asked for (a documented embed prefixes its answers: unspecified)
		b.WriteString(td("T") + "type T struct {\n\t// meta:\n\tMeta\n\tAudit\n\t*Stamp\n" + fd("F") + "\tF int\n}\n\n// Meta is embedded with a doc.\ntype Meta struct {\n\t// of meta\n\tM int\n}\n\n// Audit is embedded without a doc.\ntype Audit struct {\n" + fd("By") + "\tBy string\n}\n\n// Stamp is embedded by pointer without a doc.\ntype Stamp struct {\n" + fd("At") + "\tAt int\n}\n")
		expect("T", "&T{Stamp: new(Stamp)}", nil, typeDoc("T"), true)
		expect("T.F", "&T{Stamp: new(Stamp)}", []string{"F"}, fieldDoc("F"), true)
		expect("T.By (delegated to the undocumented embed Audit)", "&T{Stamp: new(Stamp)}", []string{"By"}, fieldDoc("By"), true)
		expect("T.At (delegated to the undocumented embedded pointer Stamp)", "&T{Stamp: new(Stamp)}", []string{"At"}, fieldDoc("At"), true)
		expect("T.NoSuch", "&T{Stamp: new(Stamp)}", []string{"NoSuch"}, nil, false)
		// questions answered through the DOCUMENTED embed are not judged - but asking them (twice) must not change
		// what the embedded type answers for itself afterwards
		cb.WriteString("\tverifkit.AskDoc(&T{Stamp: new(Stamp)}, \"M\")\n\tverifkit.AskDoc(&T{Stamp: new(Stamp)}, \"M\")\n")
		expect("Meta.M asked directly after it was asked through the documented embed", "new(Meta)", []string{"M"}, []string{"of meta"}, true)
		expect("Meta", "new(Meta)", nil, []string{"is embedded with a doc."}, true)
	case "structs-composed-only-of-embedded-structs":
		// an embedded exported struct IS an exported field: such structs are covered and delegate
		b.WriteString(td("T") + "type T struct {\n\tAudit\n}\n\n// Full is composed of embeds only.\ntype Full struct {\n\tAudit\n\t*Stamp\n}\n\n// Wrapped has a field and embeds Full.\ntype Wrapped struct {\n\tName string\n\tFull\n}\n\n// Audit is embedded.\ntype Audit struct {\n" + fd("By") + "\tBy string\n}\n\n// Stamp is embedded by pointer.\ntype Stamp struct {\n" + fd("At") + "\tAt int\n}\n")
		expect("T (its own doc, not the promoted method of Audit)", "new(T)", nil, typeDoc("T"), true)
		expect("T.By", "new(T)", []string{"By"}, fieldDoc("By"), true)
		expect("T.NoSuch", "new(T)", []string{"NoSuch"}, nil, false)
		expect("Full", "&Full{Stamp: new(Stamp)}", nil, []string{"is composed of embeds only."}, true)
		expect("Full.By", "&Full{Stamp: new(Stamp)}", []string{"By"}, fieldDoc("By"), true)
		expect("Full.At", "&Full{Stamp: new(Stamp)}", []string{"At"}, fieldDoc("At"), true)
		expect("Wrapped.Name", "&Wrapped{Full: Full{Stamp: new(Stamp)}}", []string{"Name"}, []string{}, true)
		expect("Wrapped.By (through Full)", "&Wrapped{Full: Full{Stamp: new(Stamp)}}", []string{"By"}, fieldDoc("By"), true)
		expect("Wrapped.At (through Full)", "&Wrapped{Full: Full{Stamp: new(Stamp)}}", []string{"At"}, fieldDoc("At"), true)
		expect("Audit", "new(Audit)", nil, []string{"is embedded."}, true)
	case "first-type-in-name-order-renders-nothing":
		// Alpha (exported, no exported field) is the first type the generator meets; later types embed
		b.WriteString("// Alpha sorts first and has no exported field.\ntype Alpha struct{ n int }\n\nvar _ = Alpha{}.n\n\n" + td("T") + "type T struct {\n\tMeta\n\t*Stamp\n" + fd("F") + "\tF int\n}\n\n// Meta is embedded.\ntype Meta struct {\n" + fd("M") + "\tM int\n}\n\n// Stamp is embedded by pointer.\ntype Stamp struct {\n" + fd("At") + "\tAt int\n}\n")
		expect("T", "&T{Stamp: new(Stamp)}", nil, typeDoc("T"), true)
		expect("T.F", "&T{Stamp: new(Stamp)}", []string{"F"}, fieldDoc("F"), true)
		expect("T.M (delegated)", "&T{Stamp: new(Stamp)}", []string{"M"}, fieldDoc("M"), true)
		expect("T.At (delegated through the pointer)", "&T{Stamp: new(Stamp)}", []string{"At"}, fieldDoc("At"), true)
		expect("T.NoSuch", "&T{Stamp: new(Stamp)}", []string{"NoSuch"}, nil, false)
		fmt.Fprintf(&cb, "\tchecks++\n\tif verifkit.HasRuntimeDoc(new(Alpha)) {\n\t\tfails = append(fails, \"Alpha has no exported field but is covered\")\n\t}\n")
	case "embeds-unexported-and-non-struct":
		b.WriteString(td("T") + "type T struct {\n\tinner\n\tStr\n" + fd("F") + "\tF int\n}\n\ntype inner struct {\n\t// IF doc\n\tIF int\n}\n\n// Str is a defined string.\ntype Str string\n")
		expect("T", "new(T)", nil, typeDoc("T"), true)
		expect("T.F", "new(T)", []string{"F"}, fieldDoc("F"), true)
		expect("T.NoSuch", "new(T)", []string{"NoSuch"}, nil, false)
		expect("Str", "new(Str)", nil, []string{"is a defined string."}, true)
	}
	cb.WriteString("\treturn\n}\n")
	return b.String(), cb.String()
}

type Case struct {
	Prog Prog `json:"program"`
}

func generate(c *core.Ctx, root string, dirs []string, fail func(dir, msg string)) (ok []string) {
	if len(dirs) == 0 {
		return nil
	}
	var eps []string
	for _, d := range dirs {
		eps = append(eps, "./"+d)
	}
	o := pipe.Exec(pipe.Spec{Dir: root, Entrypoints: eps, Real: []string{"runtimedoc"}})
	c.Trans(1)
	if o.OK() {
		return dirs
	}
	if len(dirs) == 1 {
		fail(dirs[0], fmt.Sprintf("generation failed: load=%q err=%q panic=%q", o.LoadErr, o.Err, o.Panic))
		return nil
	}
	h := len(dirs) / 2
	return append(generate(c, root, dirs[:h], fail), generate(c, root, dirs[h:], fail)...)
}

func checkProgs(c *core.Ctx, progs []Prog) {
	root := pipe.TempDir("c16")
	defer os.RemoveAll(root)
	t := pipe.Tree{"go.mod": pipe.GoMod(modPath, "1.24"), "verifkit/kit.go": gocheck.VerifKit, "dep/dep.go": "package dep\n\n// D is foreign.\ntype D struct{ V int }\n"}
	checks := pipe.Tree{}
	var dirs []string
	byDir := map[string]Prog{}
	for i, p := range progs {
		name := fmt.Sprintf("k%05d", i)
		src, chk := p.source(name)
		t["p/"+name+"/types.go"] = src
		// a file that sorts before types.go with documented FUNCTION-LOCAL types named like the package-level ones
		t["p/"+name+"/a_local.go"] = "package " + name + "\n\nfunc localTwins() int {\n\t// T is a function-local twin with a doc of its own.\n\ttype T struct {\n\t\t// F of the local twin\n\t\tF int\n\t\t// EF of the local twin\n\t\tEF string\n\t}\n\t// E is local too.\n\ttype E struct {\n\t\t// EF local\n\t\tEF int\n\t}\n\t// S is local.\n\ttype S string\n\treturn T{}.F + E{}.EF + len(S(\"\"))\n}\n"
		checks["p/"+name+"/verif_check.go"] = chk
		dirs = append(dirs, "p/"+name)
		byDir["p/"+name] = p
	}
	// history: every package was generated before, from an EARLIER version of its source (same declarations,
	// other doc texts); the source was edited since, the output of that run is still in the directory
	t0 := pipe.Tree{}
	for k, v := range t {
		t0[k] = v
	}
	for d, p := range byDir {
		t0[d+"/types.go"], _ = earlier(p).source(d[strings.LastIndex(d, "/")+1:])
	}
	if err := pipe.WriteTree(root, t0); err != nil {
		c.Internal("%v", err)
		return
	}
	_ = generate(c, root, dirs, func(string, string) {})
	if err := pipe.WriteTree(root, t); err != nil {
		c.Internal("%v", err)
		return
	}
	failed := map[string]bool{}
	fail := func(dir, msg string) {
		if !failed[dir] {
			failed[dir] = true
			p := byDir[dir]
			c.Fail(classify(p, msg), Case{p}, "%s: %s", p, msg)
		}
	}
	ok1 := generate(c, root, dirs, fail)
	t1, _ := pipe.ReadTree(root)
	// (built with the map-order seam the second run iterates every map of the library - generators
	// included - in DESCENDING key order, the first one in ascending order)
	seamctl.Set(1, nil)
	ok2 := generate(c, root, ok1, fail)
	seamctl.Set(0, nil)
	t2, _ := pipe.ReadTree(root)
	gen := func(t pipe.Tree, d string) string { return t[d+"/zz_generated.runtimedoc.go"] }
	for _, d := range ok2 {
		if gen(t1, d) != gen(t2, d) {
			fail(d, fmt.Sprintf("the second generation differs from the first\n--- first ---\n%s--- second ---\n%s", gen(t1, d), gen(t2, d)))
		}
	}
	if err := pipe.WriteTree(root, checks); err != nil {
		c.Internal("%v", err)
		return
	}
	for _, d := range dirs {
		found := false
		for _, o := range ok2 {
			if o == d {
				found = true
			}
		}
		if !found {
			os.Remove(root + "/" + d + "/verif_check.go")
		}
	}
	berr, err := gocheck.BuildErrors(root, "./p/...")
	if err != nil {
		c.Internal("%v", err)
		return
	}
	var runnable []string
	for _, d := range ok2 {
		if msg, bad := berr[modPath+"/"+d]; bad {
			fail(d, fmt.Sprintf("the generated code does not compile with the package:\n%s--- generated ---\n%s", msg, gen(t1, d)))
			continue
		}
		runnable = append(runnable, modPath+"/"+d)
	}
	reps, err := gocheck.RunMain(root, modPath, runnable)
	if err != nil {
		c.Internal("%v", err)
		return
	}
	c.Trace(1)
	for _, r := range reps {
		d := strings.TrimPrefix(r.Pkg, modPath+"/")
		c.Trans(r.Checks)
		if len(r.Fails) > 0 {
			fail(d, fmt.Sprintf("%s\n--- generated ---\n%s", strings.Join(r.Fails, "; "), gen(t1, d)))
		}
	}
	for _, d := range dirs {
		p := byDir[d]
		c.Eval(1)
		c.State(fmt.Sprintf("%d|%v", p.Shape, failed[d]))
		if p.TypeDoc > 0 || p.FieldDoc > 0 {
			c.Nontrivial(p.String())
		}
	}
}

func classify(p Prog, msg string) string {
	return ""
}

func run(c *core.Ctx) {
	var dn []string
	for _, d := range docTexts {
		dn = append(dn, d.name)
	}
	c.Bound("type_shapes", shapes)
	c.Bound("doc_texts", dn)
	var all []Prog
	for s := range shapes {
		for td := range docTexts {
			for fd := range docTexts {
				if len(docTexts[fd].lines) > 0 && strings.HasPrefix(docTexts[fd].lines[0], "$T") {
					continue // field docs starting with the field name: outside the alphabet (statement: "f's doc lines")
				}
				if !c.Thorough() && td != fd && td > 2 && fd > 2 && (td+fd+s)%3 != 0 {
					continue // quick: the diagonal, everything against none/plain/leading-name, and a third of the rest
				}
				all = append(all, Prog{s, td, fd})
			}
		}
	}
	c.Bound("programs", len(all))
	const batch = 250
	for i := 0; i < len(all); i += batch {
		if !c.Next() {
			continue
		}
		checkProgs(c, all[i:min(i+batch, len(all))])
	}
	c.Sample(Prog{3, 2, 7}.String())
}

func replay(c *core.Ctx, raw json.RawMessage) {
	var cs Case
	if err := json.Unmarshal(raw, &cs); err != nil {
		c.Internal("bad case: %v", err)
		return
	}
	checkProgs(c, []Prog{cs.Prog})
}

func init() {
	core.Register(&core.Prop{
		ID: "C16", Level: "model_checking", Run: run, Replay: replay, Shards: 4,
		Rule: "15 type shapes (exported/unexported/generic structs, embedding by value and by pointer, only-unexported fields, defined string/map/slice/func, interface, anonymous/empty/foreign/pointer field types, embedding of unexported and non-struct types) x 15 type-doc texts x 11 field-doc texts (quotes, backslashes, backquotes, %, @name', Unicode, blank line, tag line, leading name, name twice, longer word with the name as prefix); thorough: full product, quick: the diagonal + everything against none/plain/leading-name + a third of the rest. Every third package carries a //line directive that renames its source file. Each package is first generated from an EARLIER version of its source (other doc texts) whose output stays in place, then generated twice from the current source (byte-identical; built with the map-order seam the second run iterates every map of library and generator in descending order), compiled with the package and a harness-written check file, and run: RuntimeDoc() and RuntimeDoc(name) for every field, delegated field and unknown name vs the doc lines the harness wrote. Non-trivial = some doc text present; states = (shape, failed?)",
		Assumptions: []string{
			"field docs starting with the field name, embedded fields with their own doc, [[embed]] lines and lines starting with go: are outside the alphabet",
			"'leading type name removed' is read as: the first word is the name",
		},
	})
}
