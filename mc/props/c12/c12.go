// Package c12: doc, trailing comments and tags are attributed to the right
// declaration. Every layout of N consecutive declarations x doc form x
// trailing comment x declaration kind is written to a file, loaded with the
// real loader, and Doc/Comment of every declared object are compared with what
// the harness knows it wrote. ExtractCommentTags is compared with a reference
// splitter on every short line list over a small alphabet.
package c12

import (
	"encoding/json"
	"fmt"
	"go/ast"
	"go/types"
	"os"
	"sort"
	"strings"

	gengotypes "github.com/octohelm/gengo/pkg/types"
	"verif/mc/core"
	"verif/mc/pipe"
)

const modPath = "x.io/test"

var docForms = []string{"none", "line", "two-lines", "block", "detached", "with-tags", "block-multiline", "two-blocks-on-one-line", "block-then-line", "gofmt-code-block-with-tab-indented-lines"}
var kinds = []string{"type-ungrouped", "type-grouped", "field", "field-multi", "const-grouped", "const-ungrouped", "var-ungrouped",
	"field-multiline-type", "type-grouped-multiline", "var-grouped-multiline-value", "type-ungrouped-multiline",
	// declarations whose own line also holds a nested field list (parameters, inline struct fields, type parameters)
	"field-func-type", "type-func-ungrouped", "type-generic-inline-struct", "field-inline-struct", "var-func-literal",
	// every declaration sits below an EMBEDDED field / embedded interface that has a trailing comment
	"field-after-embedded-field", "method-after-embedded-interface"}

var fileForms = []string{"plain", "CRLF line endings", "licence header, build constraint and an import before the declarations", "a second file of the package has comments on the same line numbers", "a //line directive after the package clause renames the file and renumbers the lines"}

type Layout struct {
	File  int   `json:"file_form,omitempty"`
	Kind  int   `json:"kind"`
	Docs  []int `json:"doc_form_per_declaration"`
	Trail []int `json:"trailing_comment_per_declaration"`
}

func (l Layout) String() string {
	var parts []string
	for i := range l.Docs {
		t := ""
		if l.Trail[i] == 1 {
			t = "+trailing"
		}
		parts = append(parts, docForms[l.Docs[i]]+t)
	}
	f := ""
	if l.File != 0 {
		f = " in a file with " + fileForms[l.File]
	}
	return kinds[l.Kind] + "[" + strings.Join(parts, " | ") + "]" + f
}

type expect struct {
	name    string
	doc     []string
	tags    map[string][]string
	comment []string
}

func docText(form int, name, indent string) (src string, doc []string, tags map[string][]string) {
	tags = map[string][]string{}
	switch docForms[form] {
	case "none":
	case "line":
		src = indent + "// doc of " + name + "\n"
		doc = []string{"doc of " + name}
	case "two-lines":
		src = indent + "// doc of " + name + "\n" + indent + "// second line\n"
		doc = []string{"doc of " + name, "second line"}
	case "block":
		src = indent + "/* block doc of " + name + " */\n"
		doc = []string{"block doc of " + name}
	case "block-multiline":
		src = indent + "/* block doc of " + name + "\nsecond block line\n+gengo:y=" + name + " */\n"
		doc = []string{"block doc of " + name, "second block line"}
		tags = map[string][]string{"gengo:y": {name}}
	case "two-blocks-on-one-line":
		src = indent + "/* first of " + name + " */ /* second of " + name + " */\n"
		doc = []string{"first of " + name, "second of " + name}
	case "block-then-line":
		src = indent + "/* block of " + name + " */\n" + indent + "// line of " + name + "\n"
		doc = []string{"block of " + name, "line of " + name}
	case "gofmt-code-block-with-tab-indented-lines":
		// a tab is not a space: "\t+x" is no tag line, and the indentation is part of the line
		src = indent + "// doc of " + name + "\n" + indent + "//\n" + indent + "//\tcode line of " + name + "\n" + indent + "//\t+gengo:notatag=" + name + "\n" + indent + "// +gengo:z=" + name + "\n"
		doc = []string{"doc of " + name, "", "\tcode line of " + name, "\t+gengo:notatag=" + name}
		tags = map[string][]string{"gengo:z": {name}}
	case "detached":
		src = indent + "// detached comment above " + name + "\n\n"
	case "with-tags":
		src = indent + "// doc of " + name + "\n" + indent + "// +gengo:x=" + name + "\n" + indent + "// @k v w\n" + indent + "// after tags\n"
		doc = []string{"doc of " + name, "after tags"}
		tags = map[string][]string{"gengo:x": {name}, "k": {"v w"}}
	}
	return
}

// render returns the file source and the expectations per declared name.
func (l Layout) render(pkg string) (string, []expect) {
	var b strings.Builder
	var exp []expect
	kind := kinds[l.Kind]
	if l.File == 2 {
		b.WriteString("// Copyright header of the file.\n// Second header line.\n\n//go:build !ignore\n\n// Package " + pkg + " has a package doc.\n")
	}
	b.WriteString("package " + pkg + "\n\n")
	if l.File == 4 {
		b.WriteString("//line grammar.y:100\n")
	}
	if strings.Contains(kind, "embedded") {
		b.WriteString("import \"" + modPath + "/emb\"\n\n")
	}
	if l.File == 2 {
		b.WriteString("import \"fmt\" // trailing comment of the import\n\n// doc of the import user\nvar _ = fmt.Sprint // trailing comment of the import user\n\n")
	}
	indent := ""
	switch kind {
	case "type-grouped", "type-grouped-multiline":
		b.WriteString("type (\n")
		indent = "\t"
	case "var-grouped-multiline-value":
		b.WriteString("var (\n")
		indent = "\t"
	case "field", "field-multi", "field-multiline-type", "field-func-type", "field-inline-struct", "field-after-embedded-field":
		b.WriteString("type S struct {\n")
		indent = "\t"
	case "method-after-embedded-interface":
		b.WriteString("type S interface {\n")
		indent = "\t"
	case "const-grouped":
		b.WriteString("const (\n")
		indent = "\t"
	}
	for i := range l.Docs {
		name := fmt.Sprintf("N%d", i+1)
		d, doc, tags := docText(l.Docs[i], name, indent)
		switch kind {
		case "field-after-embedded-field":
			b.WriteString([]string{"\temb.E1 // trailing comment of the embedded field E1\n", "\t*emb.E2 /* trailing comment of the embedded field E2 */\n", "\temb.E3 // trailing comment of the embedded field E3\n", "\temb.E4 // E4\n"}[i%4])
		case "method-after-embedded-interface":
			b.WriteString(fmt.Sprintf("\temb.I%d // trailing comment of the embedded interface I%d\n", i%4+1, i%4+1))
		}
		b.WriteString(d)
		var comment []string
		trail := ""
		if l.Trail[i] == 1 {
			trail = " // trail of " + name
			comment = []string{"trail of " + name}
		}
		switch kind {
		case "type-ungrouped":
			b.WriteString("type " + name + " int" + trail + "\n")
		case "type-grouped":
			b.WriteString("\t" + name + " int" + trail + "\n")
		case "field", "field-after-embedded-field":
			b.WriteString("\t" + name + " int" + trail + "\n")
		case "method-after-embedded-interface":
			b.WriteString("\t" + name + "() error" + trail + "\n")
		case "field-multi":
			b.WriteString("\t" + name + ", M" + name[1:] + " int" + trail + "\n")
			exp = append(exp, expect{"M" + name[1:], doc, tags, comment})
		case "field-multiline-type":
			b.WriteString("\t" + name + " struct {\n\t\tX int\n\t}" + trail + "\n")
		case "type-grouped-multiline":
			b.WriteString("\t" + name + " struct {\n\t\tX int\n\t}" + trail + "\n")
		case "type-ungrouped-multiline":
			b.WriteString("type " + name + " struct {\n\tX int\n}" + trail + "\n")
		case "var-grouped-multiline-value":
			b.WriteString("\t" + name + " = []int{\n\t\t1,\n\t}" + trail + "\n")
		case "field-func-type":
			b.WriteString("\t" + name + " func(err error, n int) error" + trail + "\n")
		case "field-inline-struct":
			b.WriteString("\t" + name + " struct{ X, Y int }" + trail + "\n")
		case "type-func-ungrouped":
			b.WriteString("type " + name + " func(code int) (ok bool, err error)" + trail + "\n")
		case "type-generic-inline-struct":
			b.WriteString("type " + name + "[T any, U comparable] struct{ V T }" + trail + "\n")
		case "var-func-literal":
			b.WriteString("var " + name + " = func(n int) int { return n }" + trail + "\n")
		case "const-grouped":
			b.WriteString("\t" + name + " = " + fmt.Sprint(i) + trail + "\n")
		case "const-ungrouped":
			b.WriteString("const " + name + " = " + fmt.Sprint(i) + trail + "\n")
		case "var-ungrouped":
			b.WriteString("var " + name + " = " + fmt.Sprint(i) + trail + "\n")
		}
		exp = append(exp, expect{name, doc, tags, comment})
	}
	switch kind {
	case "type-grouped", "const-grouped", "type-grouped-multiline", "var-grouped-multiline-value":
		b.WriteString(")\n")
	case "field", "field-multi", "field-multiline-type", "field-func-type", "field-inline-struct", "field-after-embedded-field", "method-after-embedded-interface":
		b.WriteString("}\n")
	}
	if l.File == 1 {
		return strings.ReplaceAll(b.String(), "\n", "\r\n"), exp
	}
	return b.String(), exp
}

// decoyFile: another file of the same package (sorting before x.go) with a doc comment, a declaration
// and a trailing comment on every line number the layout can use.
func decoyFile(pkg string) string {
	var b strings.Builder
	b.WriteString("package " + pkg + "\n")
	for i := 0; i < 30; i++ {
		fmt.Fprintf(&b, "// decoy doc %d\nvar Decoy%d = %d // decoy trail %d\n/* decoy block %d */ var DecoyB%d = %d // decoy trail b%d\n", i, i, i, i, i, i, i, i)
	}
	return b.String()
}

type Case struct {
	Std    string   `json:"standard_library_declaration,omitempty"`
	Layout *Layout  `json:"layout,omitempty"`
	Lines  []string `json:"comment_lines,omitempty"`
	Marker string   `json:"markers,omitempty"`
	Ctx    *CtxCase `json:"context_doc,omitempty"`
}

func checkLayouts(c *core.Ctx, ls []Layout) {
	dir := pipe.TempDir("c12")
	defer os.RemoveAll(dir)
	t := pipe.Tree{"go.mod": pipe.GoMod(modPath, "1.24"),
		"emb/emb.go": "package emb\n\ntype (\n\tE1 struct{ A1 int }\n\tE2 struct{ A2 int }\n\tE3 struct{ A3 int }\n\tE4 struct{ A4 int }\n\tI1 interface{ M1() }\n\tI2 interface{ M2() }\n\tI3 interface{ M3() }\n\tI4 interface{ M4() }\n)\n"}
	exps := make([][]expect, len(ls))
	for i, l := range ls {
		name := fmt.Sprintf("k%05d", i)
		src, e := l.render(name)
		exps[i] = e
		t["p/"+name+"/x.go"] = src
		if l.File == 3 {
			t["p/"+name+"/a.go"] = decoyFile(name)
		}
	}
	if err := pipe.WriteTree(dir, t); err != nil {
		c.Internal("%v", err)
		return
	}
	realStdout := os.Stdout
	null, _ := os.OpenFile(os.DevNull, os.O_WRONLY, 0)
	os.Stdout = null
	u, err := gengotypes.Load([]string{"./p/..."}, gengotypes.WithDir(dir))
	os.Stdout = realStdout
	null.Close()
	if err != nil {
		c.Internal("load: %v", err)
		return
	}
	c.Trace(1)
	for i, l := range ls {
		l := l
		cs := Case{Layout: &l}
		p := u.Package(fmt.Sprintf("%s/p/k%05d", modPath, i))
		if p == nil || !p.Pkg().Complete() {
			c.Internal("layout %s did not load", l)
			continue
		}
		c.Eval(1)
		c.State(l.String()[:len(kinds[l.Kind])] + fmt.Sprint(l.Docs[len(l.Docs)-1], l.Trail[0]))
		nontrivial := false
		for _, e := range exps[i] {
			obj := lookup(p, e.name)
			if obj == nil {
				c.Internal("layout %s: object %s not found", l, e.name)
				continue
			}
			c.Trans(2)
			tags, doc := p.Doc(obj.Pos())
			comment := p.Comment(obj.Pos())
			if len(e.doc) > 0 || len(e.comment) > 0 {
				nontrivial = true
			}
			// a caller may modify what it got (Context.Doc strips the name from doc[0] in place): a later
			// call must still answer from the source
			for i := range doc {
				doc[i] = "scribbled"
			}
			for k := range tags {
				tags[k] = append(tags[k], "scribbled")
			}
			for i := range comment {
				comment[i] = "scribbled"
			}
			c.Trans(2)
			tags, doc = p.Doc(obj.Pos())
			comment = p.Comment(obj.Pos())
			if !eqLines(doc, e.doc) {
				class := ""
				if len(e.doc) == 0 && len(doc) == 1 && strings.HasPrefix(doc[0], "trail of ") {
					class = "C12-previous-trailing-comment-as-doc"
				}
				c.Fail(class, cs, "layout %s: Doc(%s) = %q, want %q", l, e.name, doc, e.doc)
			}
			if !eqTags(tags, e.tags) {
				c.Fail("", cs, "layout %s: tags of %s = %v, want %v", l, e.name, tags, e.tags)
			}
			if !eqLines(comment, e.comment) {
				c.Fail("", cs, "layout %s: Comment(%s) = %q, want %q", l, e.name, comment, e.comment)
			}
		}
		if nontrivial {
			c.Nontrivial(l.String())
		}
	}
}

// checkStdDocs: the same claims on packages of the standard library (no module, other comment styles), with an
// oracle read from the syntax trees: the doc of a declaration is the comment group that ends on the line
// directly above its name and is nobody's trailing comment; its trailing comment is the Comment field.
func checkStdDocs(c *core.Ctx) {
	dir := pipe.TempDir("c12std")
	defer os.RemoveAll(dir)
	_ = pipe.WriteTree(dir, pipe.Tree{"go.mod": pipe.GoMod(modPath, "1.24"), "x.go": "package x\n\nimport (\n\t_ \"net/url\"\n\t_ \"sort\"\n\t_ \"text/tabwriter\"\n)\n"})
	realStdout := os.Stdout
	null, _ := os.OpenFile(os.DevNull, os.O_WRONLY, 0)
	os.Stdout = null
	u, err := gengotypes.Load([]string{"."}, gengotypes.WithDir(dir))
	os.Stdout = realStdout
	null.Close()
	if err != nil {
		c.Internal("load: %v", err)
		return
	}
	for _, path := range []string{"sort", "net/url", "text/tabwriter"} {
		p := u.Package(path)
		if p == nil {
			c.Internal("package %s not loaded", path)
			continue
		}
		fset := p.FileSet()
		n := 0
		for _, f := range p.Files() {
			trailing := map[*ast.CommentGroup]bool{}
			ast.Inspect(f, func(nd ast.Node) bool {
				switch x := nd.(type) {
				case *ast.Field:
					trailing[x.Comment] = true
				case *ast.ValueSpec:
					trailing[x.Comment] = true
				case *ast.TypeSpec:
					trailing[x.Comment] = true
				case *ast.ImportSpec:
					trailing[x.Comment] = true
				}
				return true
			})
			byEndLine := map[int]*ast.CommentGroup{}
			for _, g := range f.Comments {
				if !trailing[g] {
					byEndLine[fset.Position(g.End()).Line] = g
				}
			}
			judge := func(id *ast.Ident, own *ast.CommentGroup) {
				if id == nil || id.Name == "_" {
					return
				}
				c.Eval(1)
				c.Trans(2)
				n++
				line := fset.Position(id.Pos()).Line
				var wantDoc []string
				wantTags := map[string][]string{}
				if g := byEndLine[line-1]; g != nil {
					wantTags, wantDoc = refExtract(strings.Split(strings.TrimSuffix(g.Text(), "\n"), "\n"), "+@")
				}
				var wantComment []string
				if own != nil {
					wantComment = strings.Split(strings.TrimSuffix(own.Text(), "\n"), "\n")
				}
				tags, doc := p.Doc(id.Pos())
				comment := p.Comment(id.Pos())
				cs := Case{Std: path + "." + id.Name + " (" + fset.Position(id.Pos()).String() + ")"}
				if !eqLines(doc, wantDoc) || !eqTags(tags, wantTags) {
					c.Fail("", cs, "%s: Doc = %q tags %v, the comment group above the declaration says %q tags %v", cs.Std, doc, tags, wantDoc, wantTags)
				}
				if !eqLines(comment, wantComment) {
					c.Fail("", cs, "%s: Comment = %q, the trailing comment in the syntax tree is %q", cs.Std, comment, wantComment)
				}
				if len(wantDoc) > 0 {
					c.Nontrivial(cs.Std)
				}
			}
			ast.Inspect(f, func(nd ast.Node) bool {
				switch x := nd.(type) {
				case *ast.FuncDecl:
					return false // locals are not declarations in the property's sense
				case *ast.TypeSpec:
					judge(x.Name, x.Comment)
				case *ast.ValueSpec:
					if len(x.Names) == 1 {
						judge(x.Names[0], x.Comment)
					}
				case *ast.Field:
					if len(x.Names) == 1 {
						judge(x.Names[0], x.Comment)
					}
				}
				return true
			})
		}
		c.Count("std_declarations_judged:"+path, n)
	}
}

// ---------------------------------------------------------------- Context.Doc, as generators see it

// CtxCase: one run of a recording generator over two packages; the tags Context.Doc reports for a
// declaration are its own over the package's over the run's Globals, whatever was asked before.
type CtxCase struct {
	Globals int   `json:"globals_shape"` // 0 nil, 1 empty non-nil map, 2 two entries
	Own     []int `json:"own_tag_form_of_Alpha_Beta_Gamma"`
}

var ctxGlobals = []string{"nil", "empty non-nil map", `{"team": ["infra"], "shared": ["g"]}`}
var ownTagForms = [][]string{nil, {"+own"}, {"+shared=d", "+own=1", "+own=2"}}

// ctxDocLines: the doc text of a declaration of the Context.Doc case, without the leading name. Two of the five
// declarations have runs of blanks and a tab inside the name-led line and a second line with runs of blanks.
func ctxDocLines(name string) []string {
	if name == "Beta" || name == "Epsilon" {
		return []string{"does  two things.  Then\ta tab.", "a second   line with runs of blanks"}
	}
	return []string{"does things."}
}

func checkContextDoc(c *core.Ctx, cc CtxCase) {
	cs := Case{Ctx: &cc}
	c.Eval(1)
	dir := pipe.TempDir("c12ctx")
	defer os.RemoveAll(dir)
	const mod = "x.io/test"
	pkgDoc := map[string][]string{"p1": {"+gengo:g1", "+shared=p", "+pkgonly"}, "p2": {"+gengo:g1"}}
	typesOf := map[string][]string{"p1": {"Alpha", "Beta", "Gamma"}, "p2": {"Delta", "Epsilon"}}
	own := map[string][]string{"p2.Delta": nil, "p2.Epsilon": {"+own=e"}}
	for i, n := range typesOf["p1"] {
		own["p1."+n] = ownTagForms[cc.Own[i]]
	}
	t := pipe.Tree{"go.mod": pipe.GoMod(mod, "1.24")}
	for pkg, ts := range typesOf {
		var b strings.Builder
		b.WriteString("// Package " + pkg + " is a C12 case.\n")
		for _, l := range pkgDoc[pkg] {
			b.WriteString("// " + l + "\n")
		}
		b.WriteString("package " + pkg + "\n\n")
		for _, n := range ts {
			for li, l := range ctxDocLines(n) {
				if li == 0 {
					l = n + " " + l // (only the first line starts with the name)
				}
				b.WriteString("// " + l + "\n")
			}
			for _, l := range own[pkg+"."+n] {
				b.WriteString("// " + l + "\n")
			}
			b.WriteString("type " + n + " struct{ X int }\n\n")
		}
		t[pkg+"/"+pkg+".go"] = b.String()
	}
	if err := pipe.WriteTree(dir, t); err != nil {
		c.Internal("%v", err)
		return
	}
	var globals map[string][]string
	switch cc.Globals {
	case 1:
		globals = map[string][]string{}
	case 2:
		globals = map[string][]string{"team": {"infra"}, "shared": {"g"}}
	}
	before := fmt.Sprint(globals)
	o := pipe.Exec(pipe.Spec{Dir: dir, Entrypoints: []string{"./p1", "./p2"}, Globals: globals,
		Gens: []pipe.GenScript{{Name: "g1", Default: pipe.Action{DocOfSelf: true}}}})
	c.Trans(1)
	if !o.OK() {
		c.Fail("", cs, "the recording run failed: load=%q err=%q panic=%q", o.LoadErr, o.Err, o.Panic)
		return
	}
	if fmt.Sprint(globals) != before {
		c.Fail("C12-context-doc-writes-into-globals", cs, "the run modified the caller's Globals map: %s before, %v after", before, globals)
	}
	for pkg, ts := range typesOf {
		src, _ := os.ReadFile(dir + "/" + pkg + "/zz_generated.g1.go")
		pt, _ := refExtract(pkgDoc[pkg], "+@")
		for _, n := range ts {
			ot, _ := refExtract(own[pkg+"."+n], "+@")
			want := map[string][]string{}
			for _, m := range []map[string][]string{globals, pt, ot} {
				for k, v := range m {
					want[k] = v
				}
			}
			var ks []string
			for k, v := range want {
				ks = append(ks, fmt.Sprintf("%s=%q", k, v))
			}
			sort.Strings(ks)
			line := fmt.Sprintf("// DOC-OF-SELF %s/%s.%s tags {%s} doc %q", mod, pkg, n, strings.Join(ks, " "), ctxDocLines(n))
			if !strings.Contains(string(src), line+"\n") {
				got := ""
				for _, l := range strings.Split(string(src), "\n") {
					if strings.Contains(l, "DOC-OF-SELF "+mod+"/"+pkg+"."+n+" ") {
						got = l
					}
				}
				c.Fail("", cs, "Context.Doc(%s.%s) with Globals = %s: a generator saw\n%s\nwant (own tags over package tags over Globals)\n%s", pkg, n, ctxGlobals[cc.Globals], got, line)
			}
		}
	}
	c.State(fmt.Sprintf("ctxdoc/%d", cc.Globals))
	c.Nontrivial(fmt.Sprint("ctxdoc", cc))
}

func lookup(p gengotypes.Package, name string) types.Object {
	if o := p.Pkg().Scope().Lookup(name); o != nil {
		return o
	}
	if s := p.Pkg().Scope().Lookup("S"); s != nil {
		if st, ok := s.Type().Underlying().(*types.Struct); ok {
			for i := 0; i < st.NumFields(); i++ {
				if st.Field(i).Name() == name {
					return st.Field(i)
				}
			}
		}
		if it, ok := s.Type().Underlying().(*types.Interface); ok {
			for i := 0; i < it.NumExplicitMethods(); i++ {
				if it.ExplicitMethod(i).Name() == name {
					return it.ExplicitMethod(i)
				}
			}
		}
	}
	return nil
}

func eqLines(a, b []string) bool {
	if len(a) != len(b) {
		return false
	}
	for i := range a {
		if a[i] != b[i] {
			return false
		}
	}
	return true
}

func eqTags(a, b map[string][]string) bool {
	if len(a) != len(b) {
		return false
	}
	for k, v := range a {
		if !eqLines(v, b[k]) {
			return false
		}
	}
	return true
}

// ---------------------------------------------------------------- ExtractCommentTags

var tagAlphabet = []string{" ", "\t", "+", "@", "=", "a", "b", ":"}

// reference splitter, from the statement
func refExtract(lines []string, markers string) (map[string][]string, []string) {
	tags := map[string][]string{}
	var others []string
	for _, line := range lines {
		t := strings.Trim(line, " ")
		if t == "" || !strings.ContainsRune(markers, rune(t[0])) {
			others = append(others, t)
			continue
		}
		kv := t[1:]
		k, v := kv, ""
		if i := strings.IndexAny(kv, "= "); i >= 0 {
			k, v = kv[:i], kv[i+1:]
		}
		tags[k] = append(tags[k], v)
	}
	return tags, others
}

func checkLines(c *core.Ctx, lines []string, markers string) {
	c.Eval(1)
	c.Trans(1)
	cs := Case{Lines: lines, Marker: markers}
	var got map[string][]string
	var others []string
	var pan any
	func() {
		defer func() { pan = recover() }()
		if markers == "" {
			got, others = gengotypes.ExtractCommentTags(lines)
		} else {
			got, others = gengotypes.ExtractCommentTags(lines, []byte(markers)...)
		}
	}()
	m := markers
	if m == "" {
		m = "+@"
	}
	want, wantOthers := refExtract(lines, m)
	c.State(fmt.Sprintf("tags=%d others=%d", len(want), len(wantOthers)))
	if len(want) > 0 {
		c.Nontrivial(fmt.Sprint(lines, markers))
	}
	if pan != nil {
		c.Fail("", cs, "ExtractCommentTags(%q) panicked: %v", lines, pan)
		return
	}
	if !eqTags(got, want) {
		c.Fail("", cs, "ExtractCommentTags(%q, markers %q) tags = %v, want %v", lines, m, sorted(got), sorted(want))
	}
	// every line classified exactly once; other lines compared modulo surrounding spaces
	if len(others) != len(wantOthers) {
		c.Fail("", cs, "ExtractCommentTags(%q) other lines = %q, want %q", lines, others, wantOthers)
		return
	}
	for i := range others {
		if strings.Trim(others[i], " ") != strings.Trim(wantOthers[i], " ") {
			c.Fail("", cs, "ExtractCommentTags(%q) other lines = %q, want %q", lines, others, wantOthers)
			return
		}
	}
	n := len(others)
	for _, v := range got {
		n += len(v)
	}
	if n != len(lines) {
		c.Fail("", cs, "ExtractCommentTags(%q): %d lines in, %d classified", lines, len(lines), n)
	}
}

func sorted(m map[string][]string) string {
	var ks []string
	for k := range m {
		ks = append(ks, k)
	}
	sort.Strings(ks)
	var b strings.Builder
	for _, k := range ks {
		fmt.Fprintf(&b, "%q:%q ", k, m[k])
	}
	return b.String()
}

func buildStr(ch *core.Chooser, maxLen int) string {
	var b strings.Builder
	for i := 0; i < maxLen; i++ {
		k := ch.Choose(len(tagAlphabet) + 1)
		if k == 0 {
			break
		}
		b.WriteString(tagAlphabet[k-1])
	}
	return b.String()
}

// ---------------------------------------------------------------- driver

func run(c *core.Ctx) {
	c.Bound("doc_forms", docForms)
	c.Bound("declaration_kinds", kinds)
	var all []Layout
	gen := func(kind, n int) {
		core.Explore(c, core.ExploreOpts{Bound: -1}, func(ch *core.Chooser, _ bool) {
			l := Layout{Kind: kind}
			for i := 0; i < n; i++ {
				l.Docs = append(l.Docs, ch.Choose(len(docForms)))
				l.Trail = append(l.Trail, ch.Choose(2))
			}
			all = append(all, l)
		})
	}
	for k := range kinds {
		if k >= 11 && !c.Thorough() {
			gen(k, 2) // the five nested-field-list kinds: pairs in the quick tier, triples in the thorough one
			continue
		}
		gen(k, 3)
	}
	c.Bound("consecutive_declarations", 3)
	if c.Thorough() {
		gen(0, 4)
		gen(2, 4)
		c.Bound("consecutive_declarations_thorough_kinds_type_ungrouped_and_field", 4)
	}
	// the other file forms for every layout of 2 consecutive declarations
	c.Bound("file_forms", fileForms)
	for f := 1; f < len(fileForms); f++ {
		for k := range kinds {
			core.Explore(c, core.ExploreOpts{Bound: -1}, func(ch *core.Chooser, _ bool) {
				l := Layout{Kind: k, File: f}
				for i := 0; i < 2; i++ {
					l.Docs = append(l.Docs, ch.Choose(len(docForms)))
					l.Trail = append(l.Trail, ch.Choose(2))
				}
				all = append(all, l)
			})
		}
	}
	c.Bound("layouts", len(all))
	const batch = 500
	for i := 0; i < len(all); i += batch {
		if !c.Next() {
			continue
		}
		j := i + batch
		if j > len(all) {
			j = len(all)
		}
		checkLayouts(c, all[i:j])
	}
	c.Sample(Layout{Kind: 2, Docs: []int{1, 0, 5}, Trail: []int{1, 0, 1}}.String())

	// declarations of standard-library packages
	c.Bound("standard_library_packages_with_syntax_tree_oracle", []string{"sort", "net/url", "text/tabwriter"})
	if c.Next() {
		checkStdDocs(c)
	}
	// Context.Doc as generators see it: 3 shapes of Globals x every assignment of 3 own-tag forms to 3 types
	c.Bound("context_doc_globals_shapes", ctxGlobals)
	c.Bound("context_doc_own_tag_forms", ownTagForms)
	for g := range ctxGlobals {
		for a := 0; a < 27; a++ {
			if c.Next() {
				checkContextDoc(c, CtxCase{Globals: g, Own: []int{a % 3, a / 3 % 3, a / 9}})
			}
		}
	}
	// tag extraction
	lineLen := c.Pick(5, 7)
	c.Bound("tag_line_alphabet", tagAlphabet)
	c.Bound("single_line_max_len", lineLen)
	c.Bound("line_pairs_max_len", 3)
	core.Explore(c, core.ExploreOpts{Bound: -1}, func(ch *core.Chooser, _ bool) {
		s := buildStr(ch, lineLen)
		if !c.Next() {
			return
		}
		checkLines(c, []string{s}, "")
		if len(s) <= 4 {
			checkLines(c, []string{s}, "a=")
			checkLines(c, []string{s}, "+")
		}
	})
	var short []string
	core.Explore(c, core.ExploreOpts{Bound: -1}, func(ch *core.Chooser, _ bool) {
		short = append(short, buildStr(ch, 3))
	})
	for _, a := range short {
		if !c.Next() {
			continue
		}
		for _, b := range short {
			checkLines(c, []string{a, b}, "")
		}
	}
	// every Unicode scalar value as the FIRST character of a line (bare and behind a blank): only the markers
	// themselves make a tag (a test on one byte of the character, or on its low bits, is wrong somewhere)
	for lo := rune(0); lo <= 0x10FFFF; lo += 4096 {
		if !c.Next() {
			continue
		}
		for r := lo; r < lo+4096 && r <= 0x10FFFF; r++ {
			if r >= 0xD800 && r <= 0xDFFF {
				continue
			}
			checkLines(c, []string{string(r) + "key=v"}, "")
			if r%16 == 11 || r%64 == 0 {
				checkLines(c, []string{" " + string(r) + "key v", "tail"}, "")
			}
		}
	}
	c.Bound("first_character_of_a_line", "every Unicode scalar value")
	checkLines(c, nil, "")
	checkLines(c, []string{"+foo=value1", "+bar", "+foo value2", "+baz=\"qux\"", "text", "  @x  y  "}, "")
	c.Sample(map[string]any{"lines": []string{"+a=b", " @a b"}})
}

func replay(c *core.Ctx, raw json.RawMessage) {
	var cs Case
	if err := json.Unmarshal(raw, &cs); err != nil {
		c.Internal("bad case: %v", err)
		return
	}
	if cs.Std != "" {
		checkStdDocs(c)
		return
	}
	if cs.Layout != nil {
		checkLayouts(c, []Layout{*cs.Layout})
		return
	}
	if cs.Ctx != nil {
		checkContextDoc(c, *cs.Ctx)
		return
	}
	checkLines(c, cs.Lines, cs.Marker)
}

func init() {
	core.Register(&core.Prop{
		ID: "C12", Level: "model_checking", Run: run, Replay: replay,
		Rule: "layouts: every assignment of (doc form in {none, line, two lines, block, detached, with tag lines, multi-line block with a tag line, two blocks on one line, block followed by a line comment, gofmt-style code block with tab-indented lines one of which looks like a tag} x trailing comment yes/no) to 3 (thorough: 4 for two kinds) consecutive declarations, for 16 declaration kinds (ungrouped/grouped types, struct fields, multi-name fields, grouped/ungrouped consts, vars, and multi-line declarations whose trailing comment sits on the closing line: fields of struct type, grouped/ungrouped struct types, grouped vars with multi-line values; and declarations whose own line holds a nested field list: func-typed and inline-struct fields, func types, generic inline structs, vars with func literals); one source file per layout loaded by the real loader, plus every layout of 2 declarations in 4 more file forms (a //line directive renaming the file; CRLF line endings; licence header + build constraint + import before the declarations; a second file of the package with comments on the same line numbers); Doc/tags/Comment of every declared object vs the harness' own knowledge of what it wrote (asked twice, the first answer overwritten by the caller in between). Tag extraction: every single line <=5 (6) over an 8-symbol alphabet (also with custom markers), every pair of lines <=3. Non-trivial = layouts with at least one doc or trailing comment / inputs with at least one tag; states = distinct layout classes / (tags, other lines) counts",
		Assumptions: []string{
			"doc lines starting with 'go:' or with leading/trailing blanks are outside the alphabet",
			"other (non-tag) lines are compared modulo surrounding spaces",
		},
	})
}
