// Package c01: every file gengo writes is valid, canonically formatted Go for
// its package. Sequences of rendered fragments (declarations, comments,
// directives, odd whitespace) x referenced-import sets x modules (path, go
// directive) are generated through the real pipeline; every written file is
// read back and judged with go/parser, go/format, gofumpt and a reference
// assembly built by the harness. Histories of two runs cover rewriting an
// existing (longer / shorter) file.
package c01

import (
	"bytes"
	"encoding/json"
	"fmt"
	"go/ast"
	"go/format"
	"go/parser"
	"go/scanner"
	"go/token"
	"os"
	"runtime"
	"runtime/debug"
	"sort"
	"strconv"
	"strings"

	gofumpt "mvdan.cc/gofumpt/format"
	"verif/mc/core"
	"verif/mc/pipe"
)

var fragments = []struct{ name, text string }{
	{"func", "func F$I() {}\n"},
	{"method", "func (T) M$I() {}\n"},
	{"struct-odd-spacing", "type X$I struct {\nA int\n  B   string `json:\"b\"`\n}\n"},
	{"var", "var V$I = 1\n"},
	{"single-spec-group", "var (\n x$I = 1\n)\n"},
	{"single-spec-group-on-one-line", "var ( y$I = 1 )\n"},
	{"import-like-one-line-const-group", "const ( q$I = 1; r$I = 2 )\n"},
	{"octal-literal", "const C$I = 0755\n"},
	{"doc-comment", "// D$I is documented.\nfunc D$I() {}\n"},
	{"go-noinline", "//go:noinline\nfunc N$I() {}\n"},
	{"comment-without-space", "//foo no space\nvar W$I int\n"},
	{"raw-string-newlines", "var R$I = `raw\n  string`\n"},
	// blanks a text-level clean-up would drop although they are part of a token: trailing spaces / tabs / a
	// blank-only line INSIDE a raw string, and trailing blanks after code and in comments (formatting)
	{"raw-string-trailing-blanks", "var RB$I = `usage:  \n  demo [flags]\t\n   \nend`\n"},
	{"trailing-blanks-in-code-and-comments", "// comment with trailing blanks   \nvar TB$I = 1 \t \n"},
	{"composite-odd-breaks", "var L$I = []int{1,\n2,\n\n3}\n"},
	{"block-blank-lines", "func G$I() {\n\n\n\tx := 1\n\t_ = x\n\n}\n"},
	{"one-line-func", "func H$I() { if true { return } }\n"},
	{"many-blank-lines", "\n\n\nvar Blank$I int\n\n\n\n"},
	{"crlf", "var CR$I int\r\n"},
	{"block-comment", "/* block\ncomment */\nvar BC$I int\n"},
	{"free-comment", "// a free-standing comment $I\n\n"},
	{"interface", "type I$I interface {\nM()\n}\n"},
	{"adjacent-vars", "var _ = map[string]int{\n\"a\": 1,\n}\nvar _ = $I\n"},
	{"go-generate", "//go:generate echo hi\nvar GG$I int\n"},
	{"grouped-consts-iota", "const (\nK$I = iota\nK$Ib\n)\n"},
	{"no-trailing-newline", "var NT$I int"},
	// sizes around the buffer sizes an implementation may use (1 KiB, 4 KiB, 64 KiB)
	{"large-string-1500B", "var Big$I = \"" + strings.Repeat("x", 1500) + "\"\n"},
	{"large-comment-5KiB", strings.Repeat("// "+strings.Repeat("c", 97)+"\n", 50) + "var AfterComment$I int\n"},
	{"huge-decl-70KiB", "var Huge$I = []int{\n" + strings.Repeat("\t1, 2, 3, 4, 5, 6, 7, 8, 9, 10, 11, 12, 13, 14, 15, 16, 17, 18, 19, 20,\n", 1000) + "}\n"},
	// an import declaration the generator renders ITSELF (no alias; the package name differs from the last path
	// element), followed by a use of it: only legal as the first thing rendered, takes part in dedicated sequences
	{"own-import-declaration", "import \"gopkg.in/yaml.v3\"\n\nvar Y$I = yaml.Node{}\n"},
}

var routes = []string{"one Block of the concatenation", "one Render call per fragment", "ONE RenderT call with every fragment as a template argument", "ONE Render call of a Snippets list", "ONE Render call of Sprintf(%v%v..)"}

var importSets = [][]string{
	nil,
	{"fmt"},
	{"fmt", "github.com/a/b"},
	{"strings", "$MOD/dep"},
	{"x.io/a/util", "x.io/b/util", "fmt"},
	{"unsafe", "os"},
	{"encoding/json", "github.com/json-iterator/go", "k8s.io/api/core/v1"},
}

type modSpec struct{ path, goVersion string }

var modules = []modSpec{
	{"x.io/test", "1.24"}, {"x.io/test", "1.18"}, {"x.io/test", "1.21"}, {"x.io/test", "1.22.0"}, {"x.io/test", "1.24.2"},
	{"github.com/a/b", "1.24"}, {"example.com/m/v2", "1.23"}, {"x.io/old", "1.12"},
}

type Item struct {
	Frags   []int `json:"fragments"`
	Imports int   `json:"import_set"`
	Second  []int `json:"second_run_fragments,omitempty"` // history: a second run renders this instead
	Route   int   `json:"route_to_the_writer,omitempty"`  // index into routes
	// the judged generator renders a declaration for the type before (then ErrIgnore) and after (then ErrSkip) the judged one
	Markers bool `json:"renders_before_answering_ErrIgnore_and_ErrSkip,omitempty"`
}

func fragParts(idx []int) []string {
	var out []string
	for pos, f := range idx {
		out = append(out, strings.ReplaceAll(fragments[f].text, "$I", strconv.Itoa(pos)))
	}
	return out
}

func actionFor(frags []int, route int, imports []string) pipe.Action {
	if route == 0 {
		return pipe.Action{Render: fragText(frags), Imports: imports}
	}
	return pipe.Action{Parts: fragParts(frags), Route: route, Imports: imports}
}

type Case struct {
	AfterFailure int    `json:"after_a_failed_execute_of_kind,omitempty"` // 1 + index into failureKinds
	TwoModules   bool   `json:"one_run_over_two_modules,omitempty"`
	Mod          int    `json:"module"`
	Item         Item   `json:"case"`
	Name         string `json:"-"`
}

func fragText(idx []int) string {
	var b strings.Builder
	for pos, f := range idx {
		b.WriteString(strings.ReplaceAll(fragments[f].text, "$I", strconv.Itoa(pos)))
	}
	return b.String()
}

func fragIndex(name string) int {
	for i, f := range fragments {
		if f.name == name {
			return i
		}
	}
	panic(name)
}

func fragNames(idx []int) []string {
	var out []string
	for _, f := range idx {
		out = append(out, fragments[f].name)
	}
	return out
}

func langVersion(m modSpec) string { return "go" + m.goVersion }

func fumptFix(src []byte, m modSpec) ([]byte, int, error) {
	cur := src
	for i := 0; i < 6; i++ {
		next, err := gofumpt.Source(cur, gofumpt.Options{LangVersion: langVersion(m), ModulePath: m.path})
		if err != nil {
			return nil, i, err
		}
		if bytes.Equal(next, cur) {
			return cur, i, nil
		}
		cur = next
	}
	return cur, 6, nil
}

// stripHeader removes everything before the package clause.
// ownDeclsOnly: the second generator's file holds, for a set of type names that includes T, exactly
// "var Other_<N>_g2 = 1" and "func deferredHelper_<N>_g2() {}" once each and nothing else.
func ownDeclsOnly(decls []string) bool {
	vars, helpers := map[string]int{}, map[string]int{}
	for _, d := range decls {
		switch {
		case strings.HasPrefix(d, "var Other_") && strings.HasSuffix(d, "_g2 = 1"):
			vars[strings.TrimSuffix(strings.TrimPrefix(d, "var Other_"), "_g2 = 1")]++
		case strings.HasPrefix(d, "func deferredHelper_") && strings.HasSuffix(d, "_g2 ( ) { }"):
			helpers[strings.TrimSuffix(strings.TrimPrefix(d, "func deferredHelper_"), "_g2 ( ) { }")]++
		default:
			return false
		}
	}
	if vars["T"] != 1 || len(vars) != len(helpers) {
		return false
	}
	for n, k := range vars {
		if k != 1 || helpers[n] != 1 {
			return false
		}
	}
	return true
}

var failureKinds = []string{"a generator returns an error after rendering", "a Defer callback returns an error after rendering", "an earlier generator rendered unparseable text, so later bodies are never written"}

// failedRunBefore runs an Execute that fails part-way, in this process.
func failedRunBefore(c *core.Ctx, kind int) {
	dir := pipe.TempDir("c01f")
	defer os.RemoveAll(dir)
	_ = pipe.WriteTree(dir, pipe.Tree{
		"go.mod":   pipe.GoMod("x.io/failing", "1.24"),
		"p1/p1.go": "package p1\n\ntype A struct{}\n\ntype B struct{}\n",
		"p2/p2.go": "package p2\n\ntype C struct{}\n",
	})
	g1 := pipe.GenScript{Name: "g1", Default: pipe.Action{Render: "var StaleFromFailedRun_$T_$G = 1\n"}}
	g2 := pipe.GenScript{Name: "g2", Default: pipe.Action{Render: "var StaleOther_$T_$G = 1\n"}}
	switch kind {
	case 0:
		g1.ByType = map[string]pipe.Action{"x.io/failing/p1.B": {Render: "var StaleFromFailedRun_$T_$G = 2\n", Ret: "error"}}
	case 1:
		g1.Default.Defers = []pipe.Action{{Render: "var StaleDeferred_$T_$G = 1\n", Ret: "error"}}
	default:
		g1.ByType = map[string]pipe.Action{"x.io/failing/p1.A": {Render: "func {\n"}}
	}
	o := pipe.Exec(pipe.Spec{Dir: dir, Entrypoints: []string{"./p1", "./p2"}, Globals: map[string][]string{"gengo:g1": {"true"}, "gengo:g2": {"true"}},
		Gens: []pipe.GenScript{g1, g2}})
	c.Trans(1)
	if o.Err == "" && o.Panic == "" && o.LoadErr == "" && kind >= 2 {
		// Execute returned WITHOUT error although a rendering was not parseable Go: then C01 speaks about the files
		// it wrote (that the run should have failed is C02's business)
		for _, f := range []string{"p1/zz_generated.g1.go", "p1/zz_generated.g2.go", "p2/zz_generated.g1.go", "p2/zz_generated.g2.go"} {
			src, err := os.ReadFile(dir + "/" + f)
			if err != nil {
				continue
			}
			if _, perr := parser.ParseFile(token.NewFileSet(), f, src, parser.ParseComments); perr != nil {
				c.Fail("", Case{Mod: 0, Item: Item{Frags: []int{0, 6}}, AfterFailure: kind + 1}, "Execute returned without error (one rendering for p1.A was `func {`), and the file %s it wrote does not parse: %v\n--- file ---\n%s", f, perr, src)
			}
		}
		return
	}
	if o.Err == "" {
		c.Internal("the run of failure kind %d was meant to fail", kind)
	}
}

// checkAfterFailure: [an Execute that fails part-way, a good Execute] in one process, with one P and the
// garbage collector held back in between - so that whatever the failed run left in recycled buffers
// (sync.Pool) is still there when the good run asks for one. The good run's files are judged like all others.
func checkAfterFailure(c *core.Ctx, kind int) {
	defer runtime.GOMAXPROCS(runtime.GOMAXPROCS(1))
	defer debug.SetGCPercent(debug.SetGCPercent(-1))
	c.Eval(1)
	failedRunBefore(c, kind)
	dir := pipe.TempDir("c01g")
	defer os.RemoveAll(dir)
	m := modules[0]
	_ = pipe.WriteTree(dir, pipe.Tree{
		"go.mod":   pipe.GoMod(m.path, m.goVersion),
		"q1/q1.go": "package q1\n\ntype T struct{}\n",
		"q2/q2.go": "package q2\n\ntype T struct{}\n",
	})
	frags := []int{0, 6}
	o := pipe.Exec(pipe.Spec{Dir: dir, Entrypoints: []string{"./q1", "./q2"}, Globals: map[string][]string{"gengo:g1": {"true"}, "gengo:g2": {"true"}},
		Gens: []pipe.GenScript{
			{Name: "g2", Default: pipe.Action{Render: "var Other_$T_$G = 1\n", Defers: []pipe.Action{{Render: "func deferredHelper_$T_$G() {}\n"}}}},
			{Name: "g1", Default: pipe.Action{Render: fragText(frags)}},
		}})
	c.Trans(1)
	cs := Case{Mod: 0, Item: Item{Frags: frags}, AfterFailure: kind + 1}
	if !o.OK() {
		c.Fail("", cs, "the good run after a failed one (%s) failed: err=%q panic=%q", failureKinds[kind], o.Err, o.Panic)
		return
	}
	for _, q := range []string{"q1", "q2"} {
		what := "a good run right after an Execute in which " + failureKinds[kind]
		src, err := os.ReadFile(dir + "/" + q + "/zz_generated.g1.go")
		if err != nil {
			c.Fail("", cs, "%s: %v", what, err)
			continue
		}
		judgeFile(c, cs, m, "g1", q, src, frags, nil, what)
		if src2, err := os.ReadFile(dir + "/" + q + "/zz_generated.g2.go"); err != nil {
			c.Fail("", cs, "%s: %v", what, err)
		} else if d, _, err := flatten(stripHeader(src2)); err != nil || !ownDeclsOnly(d) {
			c.Fail("", cs, "%s: the file of the second generator holds %v (err=%v)", what, d, err)
		}
	}
	c.Nontrivial(fmt.Sprint("after-failure ", kind))
}

// checkTwoModules: ONE run over packages of two modules (a main module and a module it replaces locally) that
// differ in go directive and module path: every file is formatted for the module ITS package belongs to.
func checkTwoModules(c *core.Ctx) {
	c.Eval(1)
	dir := pipe.TempDir("c01m")
	defer os.RemoveAll(dir)
	main, legacy := modSpec{"alpha.io/a", "1.24"}, modSpec{"beta", "1.12"}
	_ = pipe.WriteTree(dir, pipe.Tree{
		"go.mod":            pipe.GoMod(main.path, main.goVersion) + "\nrequire beta v0.0.0\n\nreplace beta => ./legacy\n",
		"pa/pa.go":          "package pa\n\nimport _ \"beta/pb\"\n\ntype T struct{}\n",
		"sub/sub.go":        "package sub\n\ntype X int\n",
		"legacy/go.mod":     pipe.GoMod(legacy.path, legacy.goVersion),
		"legacy/pb/pb.go":   "package pb\n\ntype T struct{}\n",
		"legacy/sub/sub.go": "package sub\n\ntype X int\n",
	})
	frags := []int{0, fragIndex("octal-literal")} // func, octal literal (rewritten to 0o755 from go 1.13 on only)
	imps := []string{"fmt", "beta/sub", "alpha.io/a/sub"}
	act := pipe.Action{Render: fragText(frags), Imports: imps}
	cs := Case{Mod: 0, Item: Item{Frags: frags}, TwoModules: true}
	for _, entry := range [][]string{{"./pa", "beta/pb"}, {"beta/pb", "./pa"}} {
		o := pipe.Exec(pipe.Spec{Dir: dir, Entrypoints: entry, Globals: map[string][]string{"gengo:g1": {"true"}},
			Gens: []pipe.GenScript{{Name: "g1", ByType: map[string]pipe.Action{"alpha.io/a/pa.T": act, "beta/pb.T": act}}}})
		c.Trans(1)
		if !o.OK() {
			c.Fail("", cs, "one run over two modules (entrypoints %v) failed: load=%q err=%q panic=%q", entry, o.LoadErr, o.Err, o.Panic)
			return
		}
		for _, f := range []struct {
			file string
			m    modSpec
			pkg  string
		}{{"pa/zz_generated.g1.go", main, "pa"}, {"legacy/pb/zz_generated.g1.go", legacy, "pb"}} {
			src, err := os.ReadFile(dir + "/" + f.file)
			if err != nil {
				c.Fail("", cs, "entrypoints %v: %v", entry, err)
				continue
			}
			judgeFile(c, cs, f.m, "g1", f.pkg, src, frags, imps, fmt.Sprintf("one run over the modules alpha.io/a (go 1.24) and beta (go 1.12), entrypoints %v, file %s", entry, f.file))
			_ = os.Remove(dir + "/" + f.file)
		}
	}
	c.Nontrivial("two-modules")
}

func stripHeader(src []byte) []byte {
	fset := token.NewFileSet()
	f, err := parser.ParseFile(fset, "x.go", src, parser.PackageClauseOnly|parser.ParseComments)
	if err != nil {
		return src
	}
	return src[fset.Position(f.Package).Offset:]
}

// judgeFile applies the C01 oracle to one written file.
func judgeFile(c *core.Ctx, cs Case, m modSpec, gen, pkgName string, src []byte, frags []int, imports []string, what string) {
	desc := fmt.Sprintf("module %s go %s, %s, fragments %v imports %v", m.path, m.goVersion, what, fragNames(frags), imports)
	fset := token.NewFileSet()
	f, err := parser.ParseFile(fset, "gen.go", src, parser.ParseComments)
	if err != nil {
		c.Fail("", cs, "%s: the written file does not parse: %v\n%s", desc, err, src)
		return
	}
	// (2) opens with a comment naming the generator
	var s scanner.Scanner
	fs2 := token.NewFileSet()
	s.Init(fs2.AddFile("", fs2.Base(), len(src)), src, nil, scanner.ScanComments)
	_, tok, lit := s.Scan()
	if tok != token.COMMENT || !strings.Contains(lit, "gengo:"+gen) {
		c.Fail("", cs, "%s: the file does not open with a comment naming generator %q: first token %s %q", desc, gen, tok, lit)
	}
	// (3) package clause
	if f.Name.Name != pkgName {
		c.Fail("", cs, "%s: package clause %q, the package is %q", desc, f.Name.Name, pkgName)
	}
	// (4) fixed point of gofmt and gofumpt
	if out, err := format.Source(src); err != nil || !bytes.Equal(out, src) {
		c.Fail("", cs, "%s: not a gofmt fixed point (err=%v)\n--- file ---\n%s--- gofmt ---\n%s", desc, err, src, out)
	}
	if out, err := gofumpt.Source(src, gofumpt.Options{LangVersion: langVersion(m), ModulePath: m.path}); err != nil || !bytes.Equal(out, src) {
		c.Fail("C01-gofumpt-not-fixed-point", cs, "%s: not a gofumpt fixed point (err=%v)\n--- file ---\n%s--- gofumpt ---\n%s", desc, err, src, out)
	}
	// (5) declarations preserved: normalise(generated) == normalise(reference assembly)
	names := map[string]string{}
	for _, im := range f.Imports {
		p, _ := strconv.Unquote(im.Path.Value)
		if im.Name != nil {
			names[p] = im.Name.Name
		}
	}
	var ref bytes.Buffer
	ref.WriteString("package " + pkgName + "\n")
	var paths []string
	seen := map[string]bool{}
	for _, p := range imports {
		if !seen[p] {
			seen[p] = true
			paths = append(paths, p)
		}
	}
	sort.Strings(paths)
	if len(paths) > 0 {
		ref.WriteString("\nimport (\n")
		for _, p := range paths {
			n, ok := names[p]
			if !ok {
				c.Fail("", cs, "%s: referenced package %q is missing from the import block\n%s", desc, p, src)
				return
			}
			fmt.Fprintf(&ref, "\t%s %q\n", n, p)
		}
		ref.WriteString(")\n")
	}
	ref.WriteString(refPre)
	for i, p := range imports {
		fmt.Fprintf(&ref, "var _%d_T_%s %s.X\n", i, gen, names[p])
	}
	ref.WriteString(fragText(frags) + refPost)
	got, _, err1 := fumptFix(stripHeader(src), m)
	want, _, err2 := fumptFix(ref.Bytes(), m)
	if err1 != nil || err2 != nil {
		c.Fail("", cs, "%s: cannot normalise (generated: %v, reference: %v)\n--- reference ---\n%s", desc, err1, err2, ref.Bytes())
		return
	}
	gd, gc, e1 := flatten(got)
	wd, wc, e2 := flatten(want)
	if e1 != nil || e2 != nil {
		c.Fail("", cs, "%s: cannot flatten (generated: %v, reference: %v)", desc, e1, e2)
		return
	}
	if strings.Join(gd, "\n") != strings.Join(wd, "\n") {
		c.Fail("", cs, "%s: the file does not contain exactly the rendered declarations, in order, altered only by formatting\n--- declarations of the file ---\n%s\n--- declarations of the reference assembly ---\n%s\n--- file ---\n%s", desc, strings.Join(gd, "\n"), strings.Join(wd, "\n"), src)
	}
	if strings.Join(gc, "\n") != strings.Join(wc, "\n") {
		c.Fail("", cs, "%s: the comments of the file differ from the rendered ones\n--- file ---\n%s\n--- reference assembly ---\n%s", desc, strings.Join(gc, "\n"), strings.Join(wc, "\n"))
	}
}

// flatten lists the declarations of a source file one by one (grouped
// declarations are split into their specs, so that grouping and blank lines -
// pure formatting - do not matter) and, separately, all comments in order.
func flatten(src []byte) (decls []string, comments []string, err error) {
	fset := token.NewFileSet()
	f, err := parser.ParseFile(fset, "x.go", src, 0)
	if err != nil {
		return nil, nil, err
	}
	// a declaration is compared as its TOKEN sequence (white space between tokens is formatting, white space
	// inside a string or character literal is not)
	pr := func(n any) string {
		var b bytes.Buffer
		_ = format.Node(&b, fset, n)
		var sc scanner.Scanner
		fs := token.NewFileSet()
		sc.Init(fs.AddFile("", fs.Base(), b.Len()), b.Bytes(), nil, 0)
		var toks []string
		for {
			_, tok, lit := sc.Scan()
			if tok == token.EOF {
				break
			}
			if tok == token.SEMICOLON && lit == "\n" {
				continue // inserted at a line end
			}
			if lit != "" {
				toks = append(toks, lit)
			} else {
				toks = append(toks, tok.String())
			}
		}
		return strings.Join(toks, " ")
	}
	var importSpecs []string
	for _, d := range f.Decls {
		switch x := d.(type) {
		case *ast.FuncDecl:
			decls = append(decls, pr(x))
		case *ast.GenDecl:
			if x.Tok == token.IMPORT {
				// import specs are declarations too (a generator may render its own); how they are grouped and
				// ordered is formatting, so they are listed as a sorted multiset in front of the other declarations
				for _, sp := range x.Specs {
					importSpecs = append(importSpecs, "import "+pr(sp))
				}
				continue
			}
			for _, sp := range x.Specs {
				decls = append(decls, x.Tok.String()+" "+pr(sp))
			}
		}
	}
	sort.Strings(importSpecs)
	decls = append(importSpecs, decls...)
	fset2 := token.NewFileSet()
	f2, err := parser.ParseFile(fset2, "x.go", src, parser.ParseComments)
	if err != nil {
		return nil, nil, err
	}
	for _, g := range f2.Comments {
		for _, cm := range g.List {
			comments = append(comments, cm.Text)
		}
	}
	return decls, comments, nil
}

func resolveImports(set []string, m modSpec) []string {
	var out []string
	for _, p := range set {
		out = append(out, strings.ReplaceAll(p, "$MOD", m.path))
	}
	return out
}

const markIgn, markZz = "var RenderedThenIgnored = 1\n", "var RenderedThenSkipped = 2\n"

func withMarkers(i int) bool { return i%3 == 1 }

// refPre / refPost: what the judged generator rendered for the types before / after the judged one
var refPre, refPost string

func checkBatch(c *core.Ctx, mi int, items []Item) {
	m := modules[mi]
	dir := pipe.TempDir("c01")
	defer os.RemoveAll(dir)
	t := pipe.Tree{"go.mod": pipe.GoMod(m.path, m.goVersion), "dep/dep.go": "package dep\n\ntype X int\n"}
	byType := map[string]pipe.Action{}
	byType2 := map[string]pipe.Action{}
	second := false
	items = append([]Item{}, items...)
	for i := range items {
		// (not behind a fragment that lacks its final newline: the marker would be glued to it)
		okEnd := func(fr []int) bool { t := fragText(fr); return t == "" || strings.HasSuffix(t, "\n") }
		ownImport := len(items[i].Frags) > 0 && items[i].Frags[0] == len(fragments)-1 // (nothing may be rendered in front of an import declaration)
		items[i].Markers = items[i].Markers || (withMarkers(i) && !ownImport && okEnd(items[i].Frags) && (items[i].Second == nil || okEnd(items[i].Second)))
	}
	for i, it := range items {
		name := fmt.Sprintf("k%05d", i)
		// directory name differs from the package name on purpose
		// (two more types, one sorting before and one after T: the judged generator renders nothing for them
		// and answers ErrIgnore / ErrSkip - which says nothing about what it rendered for T)
		t["p/"+name+"-dir/x.go"] = "package " + name + "\n\ntype T struct{}\n\ntype Ign struct{}\n\ntype Zz struct{}\n"
		key := m.path + "/p/" + name + "-dir.T"
		for _, bt := range []map[string]pipe.Action{byType, byType2} {
			bt[m.path+"/p/"+name+"-dir.Ign"] = pipe.Action{Ret: "ignore"}
			bt[m.path+"/p/"+name+"-dir.Zz"] = pipe.Action{Ret: "skip"}
			if it.Markers {
				// every third package: the generator first RENDERS a declaration for these types and then gives its
				// answer (a registration line, then "not my kind of type"): what it rendered is rendered
				bt[m.path+"/p/"+name+"-dir.Ign"] = pipe.Action{Render: markIgn, Ret: "ignore"}
				bt[m.path+"/p/"+name+"-dir.Zz"] = pipe.Action{Render: markZz, Ret: "skip"}
			}
		}
		byType[key] = actionFor(it.Frags, it.Route, resolveImports(importSets[it.Imports], m))
		if it.Second != nil {
			second = true
			byType2[key] = actionFor(it.Second, it.Route, resolveImports(importSets[it.Imports], m))
		} else {
			byType2[key] = byType[key]
		}
	}
	if err := pipe.WriteTree(dir, t); err != nil {
		c.Internal("%v", err)
		return
	}
	// history: an Execute that FAILS part-way (a generator renders something and then returns an error, a
	// Defer callback fails after rendering) ran in this process just before; nothing it rendered may
	// reach the files of the runs judged below
	failedRunBefore(c, 0)
	runs := []map[string]pipe.Action{byType}
	if second {
		runs = append(runs, byType2)
	}
	for ri, bt := range runs {
		// a second generator runs BEFORE g1 in every package and registers a Defer callback that renders a
		// helper at the end of ITS file: nothing of it may show up in g1's file
		o := pipe.Exec(pipe.Spec{Dir: dir, Entrypoints: []string{"./p/..."}, Globals: map[string][]string{"gengo:g1": {"true"}, "gengo:g2": {"true"}},
			Gens: []pipe.GenScript{
				{Name: "g2", Default: pipe.Action{Render: "var Other_$T_$G = 1\n", Defers: []pipe.Action{{Render: "func deferredHelper_$T_$G() {}\n"}}}},
				{Name: "g1", ByType: bt},
			}})
		c.Trans(1)
		c.Trace(1)
		if o.LoadErr != "" || o.Panic != "" {
			c.Fail("", Case{Mod: mi, Item: items[0]}, "module %v run %d: load=%q panic=%q", m, ri+1, o.LoadErr, o.Panic)
			return
		}
		if o.Err != "" {
			// Execute failed (e.g. a fragment without trailing newline followed by another one): outside C01,
			// find the package and drop it, then go on with the others one by one
			if os.Getenv("C01_DEBUG") != "" {
				fmt.Fprintf(os.Stderr, "DEBUG batch of %d failed: %s\n", len(items), o.Err)
			}
			if len(items) > 1 {
				for _, it := range items {
					checkBatch(c, mi, []Item{it})
				}
			} else {
				c.Count("execute_failed_cases_skipped", 1)
			}
			return
		}
		for i, it := range items {
			name := fmt.Sprintf("k%05d", i)
			frags := it.Frags
			what := "first generation"
			if it.Route != 0 {
				what = "first generation (route: " + routes[it.Route] + ")"
			}
			if ri == 1 {
				if it.Second == nil {
					continue
				}
				frags = it.Second
				what = fmt.Sprintf("regeneration over the file of fragments %v", fragNames(it.Frags))
			}
			cs := Case{Mod: mi, Item: it}
			c.Eval(1)
			src, err := os.ReadFile(dir + "/p/" + name + "-dir/zz_generated.g1.go")
			if err != nil {
				if len(frags) == 0 && len(importSets[it.Imports]) == 0 {
					continue
				}
				if strings.TrimSpace(fragText(frags)) == "" && len(importSets[it.Imports]) == 0 {
					continue
				}
				c.Fail("", cs, "no generated file for fragments %v (%s)", fragNames(frags), what)
				continue
			}
			c.State(fmt.Sprintf("%d|%d|%d|%s", mi, len(frags), it.Imports, what[:5]))
			if len(frags) >= 2 || it.Imports > 0 {
				c.Nontrivial(fmt.Sprint(mi, it))
			}
			if it.Markers {
				refPre, refPost = markIgn, markZz
				what += ", the generator renders a declaration for the type before (then answers ErrIgnore) and after (then answers ErrSkip)"
			}
			judgeFile(c, cs, m, "g1", name, src, frags, resolveImports(importSets[it.Imports], m), what)
			refPre, refPost = "", ""
			// the other generator's file: exactly its own declaration and its deferred helper
			if src2, err := os.ReadFile(dir + "/p/" + name + "-dir/zz_generated.g2.go"); err != nil {
				c.Fail("", cs, "the second generator's file is missing: %v", err)
			} else if d, _, err := flatten(stripHeader(src2)); err != nil || !ownDeclsOnly(d) {
				c.Fail("", cs, "%s: the file of the second generator (per type one declaration + one deferred helper) holds %v (err=%v)", what, d, err)
			}
		}
	}
}

func run(c *core.Ctx) {
	var fn []string
	for _, f := range fragments {
		fn = append(fn, f.name)
	}
	c.Bound("fragment_menu", fn)
	c.Bound("import_sets", importSets)
	c.Bound("routes_to_the_writer", routes)
	c.Bound("good_run_after_a_failed_execute_in_the_same_process", failureKinds)
	for k := range failureKinds {
		if c.Next() {
			checkAfterFailure(c, k)
		}
	}
	if c.Next() {
		checkTwoModules(c)
	}
	c.Bound("modules", modules2())
	maxSeq := c.Pick(2, 3)
	c.Bound("max_fragments_per_file", maxSeq)
	// the last menu entry (70 KiB) is expensive to format: it only takes part in dedicated sequences
	nf := len(fragments) - 2
	huge := len(fragments) - 2
	ownImp := len(fragments) - 1
	total := 0
	for mi := range modules {
		var items []Item
		// sequences up to maxSeq for the first module (thorough: 3 only with import set 0), <=2 elsewhere (quick: <=1 on the other modules)
		limit := maxSeq
		if mi > 0 {
			limit = c.Pick(1, 2)
		}
		var rec func(cur []int)
		rec = func(cur []int) {
			if len(cur) > 0 {
				sets := []int{0}
				if len(cur) == 1 {
					sets = []int{0, 1, 2, 3, 4, 5, 6}
				} else if len(cur) == 2 {
					sets = []int{0, 4}
				}
				for _, s := range sets {
					items = append(items, Item{Frags: append([]int{}, cur...), Imports: s})
				}
			}
			if len(cur) == limit {
				return
			}
			for f := 0; f < nf; f++ {
				rec(append(cur, f))
			}
		}
		rec(nil)
		// runs of one fragment followed by another one (formatters that merge or split adjacent declarations
		// may need several passes to settle): f f f g and f f f f, first module
		if mi == 0 {
			for f := 0; f < nf; f++ {
				items = append(items, Item{Frags: []int{f, f, f, f}})
				for g := 0; g < nf; g++ {
					if g != f {
						items = append(items, Item{Frags: []int{f, f, f, g}})
					}
				}
			}
		}
		// the other routes by which the same fragments reach the writer (first module, import set 0)
		if mi == 0 {
			for _, seq := range [][]int{{huge}, {0, huge}, {huge, 0}, {6, huge, 3}, {16, huge}, {huge, huge}} {
				items = append(items, Item{Frags: seq})
			}
			for _, seq := range [][]int{{ownImp}, {ownImp, 0}, {ownImp, 2}, {ownImp, 5}, {ownImp, 9}, {ownImp, 14}, {ownImp, 0, 0}} {
				items = append(items, Item{Frags: seq})
			}
			n := len(items)
			for _, it := range items[:n] {
				if it.Imports == 0 && (len(it.Frags) <= 2 || (len(it.Frags) == 3 && it.Frags[1] == huge)) {
					for r := 1; r < len(routes); r++ {
						items = append(items, Item{Frags: it.Frags, Route: r})
					}
				}
			}
		}
		// import sets alone
		for s := 1; s < len(importSets); s++ {
			items = append(items, Item{Imports: s})
		}
		// histories: every ordered pair of single fragments (longer->shorter and shorter->longer), first module only
		if mi == 0 {
			for a := 0; a < nf; a++ {
				for b := 0; b < nf; b++ {
					items = append(items, Item{Frags: []int{a, a, b}, Imports: 1, Second: []int{b}})
					items = append(items, Item{Frags: []int{a}, Imports: 0, Second: []int{b, a, b}})
				}
			}
		}
		// sequences whose plain concatenation is not parseable Go (a fragment without trailing
		// newline followed by another one) are the generator's error, not C01's subject
		kept := items[:0]
		for _, it := range items {
			_, err := parser.ParseFile(token.NewFileSet(), "x.go", "package p\n"+fragText(it.Frags), 0)
			if err == nil && it.Second != nil {
				_, err = parser.ParseFile(token.NewFileSet(), "x.go", "package p\n"+fragText(it.Second), 0)
			}
			if err == nil {
				kept = append(kept, it)
			} else {
				if c.Shard == 0 {
					c.Count("unparseable_concatenations_left_out", 1)
				}
			}
		}
		items = kept
		total += len(items)
		const batch = 400
		for i := 0; i < len(items); i += batch {
			if !c.Next() {
				continue
			}
			j := min(i+batch, len(items))
			checkBatch(c, mi, items[i:j])
		}
	}
	c.Bound("cases", total)
	c.Sample(map[string]any{"module": "x.io/test go 1.24", "fragments": fragNames([]int{4, 18}), "imports": importSets[4]})
}

func modules2() []string {
	var out []string
	for _, m := range modules {
		out = append(out, m.path+" go "+m.goVersion)
	}
	return out
}

func replay(c *core.Ctx, raw json.RawMessage) {
	var cs Case
	if err := json.Unmarshal(raw, &cs); err != nil {
		c.Internal("bad case: %v", err)
		return
	}
	if cs.AfterFailure > 0 {
		checkAfterFailure(c, cs.AfterFailure-1)
		return
	}
	if cs.TwoModules {
		checkTwoModules(c)
		return
	}
	checkBatch(c, cs.Mod, []Item{cs.Item})
}

func init() {
	core.Register(&core.Prop{
		ID: "C01", Level: "model_checking", Run: run, Replay: replay,
		Rule: "every sequence of <=2 (thorough <=3) fragments from a 27-item menu (plus runs f f f g, f f f f) (declarations of every kind, doc/block/free comments, directives, octal literal, raw strings, odd line breaks, blank lines, CRLF, missing trailing newline) x import-reference sets (std, third-party, module-local, clashing last segments, unsafe) on the first module, shorter sequences on 6 more (module path, go directive) combinations, package name != directory name; every written file is read back: parses, opens with a comment naming the generator, package clause, gofmt fixed point, gofumpt fixed point (module language version), and normalise(file) == normalise(reference assembly built by the harness). Histories: every ordered pair of fragments as (long file, then short) and (short, then long) regeneration over the existing file; a good run right after an Execute that failed part-way in one of 3 ways (same process, one P, collector held back, so that recycled buffers survive). Non-trivial = >=2 fragments or imports; states = distinct (module, length, import set, run kind)",
		Assumptions: []string{
			"cases on which Execute returns an error (fragments that do not concatenate to parseable Go) are outside the property and skipped (counted)",
			"normalisation = strip header + gofumpt to a fixed point: formatting may change tokens (0755 -> 0o755, //foo -> // foo, ungrouping), so token equality would be a false alarm",
		},
	})
}
