// Package c11: type literals denote the type they were rendered from. Every
// closed type expression up to a depth bound over the stated grammar is
// declared in a synthetic module, rendered by snippet.ID from its go/types type
// (and, in a compiled helper program, from its reflect type) for three kinds of
// target package, written back as `var X_i <text>` with the imports the tracker
// registered, and the module is type-checked again: types.Identical(V_i, X_i)
// must hold inside that single universe.
package c11

import (
	"bytes"
	"encoding/json"
	"fmt"
	"go/types"
	"os"
	"os/exec"
	"slices"
	"sort"
	"strings"

	"github.com/octohelm/gengo/pkg/gengo"
	"github.com/octohelm/gengo/pkg/gengo/snippet"
	"github.com/octohelm/gengo/pkg/namer"
	gengotypes "github.com/octohelm/gengo/pkg/types"
	"verif/mc/core"
	"verif/mc/pipe"
)

const modPath = "x.io/test"

// atoms, written as they appear inside package src
var predeclared = []string{"bool", "int", "int8", "int16", "int32", "int64", "uint", "uint8", "uint16", "uint32", "uint64", "uintptr",
	"float32", "float64", "complex64", "complex128", "string", "byte", "rune"}
var special = []string{"error", "any"}
var named = []string{"L", "dep.T", "otherdep.T", "LG[int]", "dep.G[int]", "dep.G[dep.T]", "dep.G2[string, otherdep.T]", "dep.G[dep.G[int]]", "LG[L]",
	// a package whose last path element contains a dot (gopkg.in/yaml.v3 style), alone and as a type argument
	"yaml.Node", "dep.G[yaml.Node]", "LG[yaml.Node]", "dep.G2[yaml.Node, dep.T]",
	// two packages whose directory is a Go keyword (the import name has to be sanitised AND disambiguated)
	"kwa.Options", "dep.G2[kwa.Options, kwb.Options]", "dep.G[kwb.Options]",
	// defined types whose KIND is that of byte / rune / string (a renderer looking at kinds only loses them)
	"dep.B8", "dep.R32", "dep.G[dep.B8]",
	// packages of the module that are NAMED like a standard package, and that standard package, in both
	// orders of first use within one file (codec/json before encoding/json; time before x/time)
	"cjs.Codec", "sjs.RawMessage", "stm.Duration", "xtm.Tick", "dep.G2[cjs.Codec, sjs.RawMessage]", "dep.G2[stm.Duration, xtm.Tick]",
	// a package whose only possible name is taken: module `item` (one path element) after x/item
	"xit.Local", "sit.Item", "dep.G2[xit.Local, sit.Item]",
	// packages whose import path CONTAINS the path of a target package followed by a dot: the target's path plus a
	// dotted suffix (x.io/test/tgt.v2) and a path of another module that ends with it (yx.io/test/tgt)
	"tv2.Node", "far.Far", "dep.G[tv2.Node]", "dep.G2[far.Far, tv2.Node]", "LG[far.Far]",
	// a package path with a plus sign (legal in import paths, special to URL-style unescaping), alone and next to the
	// dotted path that reflect escapes
	"cpp.Item", "dep.G[cpp.Item]", "dep.G2[cpp.Item, yaml.Node]"}
var mapKeys = []string{"string", "int", "L", "dep.T", "[2]int", "dep.K", "kwb.Options"}

func atoms(full bool) []string {
	if full {
		return append(append(append([]string{}, predeclared...), special...), named...)
	}
	return append(append([]string{"int", "string", "byte"}, special...), named...)
}

func construct(inner []string, keys []string, structs bool) []string {
	var out []string
	for _, t := range inner {
		out = append(out, "*"+t, "[]"+t, "[3]"+t, "chan "+t)
		for _, k := range keys {
			out = append(out, "map["+k+"]"+t)
		}
		if structs {
			out = append(out, "struct {\n\tA "+t+" `json:\"a,omitempty\" x:\"1\"`\n\tB int\n}", "struct {\n\tdep.T\n\t*L\n\tC "+t+"\n}",
				// tags with per-cent signs (a format string to anything that prints them carelessly)
				"struct {\n\tP "+t+" `default:\"100%\" layout:\"%Y-%m-%d %%s %v\"`\n}")
		}
	}
	return out
}

func expressions(c *core.Ctx) []string {
	d0 := atoms(true)
	d1 := construct(d0, mapKeys, true)
	all := append(append([]string{}, d0...), d1...)
	// depth 2: constructors over depth-1 expressions built from the reduced atom set
	r1 := construct(atoms(false), []string{"string", "dep.K"}, true)
	d2 := construct(r1, []string{"string", "L"}, true)
	all = append(all, d2...)
	if c.Thorough() {
		// depth 3 over a further reduced base
		r0 := []string{"int", "error", "L", "dep.T", "dep.G[dep.T]"}
		r1 := construct(r0, []string{"string"}, true)
		r2 := construct(r1, []string{"string"}, false)
		d3 := construct(r2, []string{"dep.K"}, true)
		all = append(all, d3...)
		// full depth 2
		all = append(all, construct(d1, []string{"string"}, false)...)
	}
	seen := map[string]bool{}
	var out []string
	for _, e := range all {
		if !seen[e] {
			seen[e] = true
			out = append(out, e)
		}
	}
	return out
}

func baseModule(exprs []string) pipe.Tree {
	var b strings.Builder
	b.WriteString("package src\n\nimport (\n\t\"" + modPath + "/dep\"\n\totherdep \"" + modPath + "/other/dep\"\n\tyaml \"" + modPath + "/third/yaml.v3\"\n\tkwa \"" + modPath + "/conf/default\"\n\tkwb \"" + modPath + "/theme/default\"\n\tcjs \"" + modPath + "/codec/json\"\n\tsjs \"encoding/json\"\n\tstm \"time\"\n\txtm \"" + modPath + "/x/time\"\n\txit \"" + modPath + "/x/item\"\n\tsit \"item\"\n\ttv2 \"" + modPath + "/tgt.v2\"\n\tfar \"y" + modPath + "/tgt\"\n\tcpp \"" + modPath + "/c++/item\"\n)\n\nvar _ dep.T\nvar _ otherdep.T\nvar _ yaml.Node\nvar _ kwa.Options\nvar _ kwb.Options\nvar _ cjs.Codec\nvar _ sjs.RawMessage\nvar _ stm.Duration\nvar _ xtm.Tick\nvar _ xit.Local\nvar _ sit.Item\nvar _ tv2.Node\nvar _ far.Far\nvar _ cpp.Item\n\ntype L struct{ X int }\n\ntype LG[X any] struct{ V X }\n\n")
	for i, e := range exprs {
		fmt.Fprintf(&b, "var V_%d %s\n", i, e)
	}
	return pipe.Tree{
		"go.mod":             pipe.GoMod(modPath, "1.24") + "\nrequire item v0.0.0\n\nreplace item => ./_item\n\nrequire y" + modPath + "/tgt v0.0.0\n\nreplace y" + modPath + "/tgt => ./_far\n",
		"_far/go.mod":        pipe.GoMod("y"+modPath+"/tgt", "1.24"),
		"_far/far.go":        "package tgt\n\ntype Far struct{ N int }\n",
		"tgt.v2/n.go":        "package tgt\n\ntype Node struct{ K int }\n",
		"c++/item/i.go":      "package item\n\ntype Item struct{ P int }\n",
		"_item/go.mod":       pipe.GoMod("item", "1.24"),
		"_item/item.go":      "package item\n\ntype Item struct{ N int }\n",
		"x/item/i.go":        "package item\n\ntype Local struct{ N int }\n",
		"dep/dep.go":         "package dep\n\ntype T struct{ A int }\n\ntype K string\n\ntype B8 uint8\n\ntype R32 int32\n\ntype G[X any] struct{ V X }\n\ntype G2[X any, Y any] struct {\n\tV X\n\tW Y\n}\n",
		"other/dep/dep.go":   "package dep\n\ntype T struct{ B string }\n",
		"z/dep/dep.go":       "package dep\n\ntype Z int\n",
		"third/yaml.v3/y.go": "package yaml\n\ntype Node struct{ Kind int }\n",
		"conf/default/o.go":  "package defaults\n\ntype Options struct{ A int }\n",
		"theme/default/o.go": "package defaults\n\ntype Options struct{ B string }\n",
		"codec/json/j.go":    "package json\n\ntype Codec struct{ N int }\n",
		"x/time/t.go":        "package time\n\ntype Tick int64\n",
		"src/src.go":         b.String(),
		"tgt/tgt.go":         "package tgt\n",
		"tgt2/tgt2.go":       "package tgt2\n",
	}
}

type Case struct {
	Expr   string `json:"type_expression"`
	Target string `json:"target"`
	From   string `json:"rendered_from"` // go/types | reflect
	// the named atoms rendered into the same file before this expression (they decide which names are taken)
	Before []string `json:"rendered_before_in_the_same_file,omitempty"`
}

var targets = []struct{ name, pkg, dir string }{
	{"own package", modPath + "/src", "src"},
	{"another package", modPath + "/tgt", "tgt"},
	{"another package whose tracker already holds a clashing name", modPath + "/tgt2", "tgt2"},
}

func load(c *core.Ctx, dir string) *gengotypes.Universe {
	realStdout := os.Stdout
	null, _ := os.OpenFile(os.DevNull, os.O_WRONLY, 0)
	os.Stdout = null
	u, err := gengotypes.Load([]string{"./..."}, gengotypes.WithDir(dir))
	os.Stdout = realStdout
	null.Close()
	if err != nil {
		c.Internal("load: %v", err)
		return nil
	}
	return u
}

func importBlock(imports map[string]string) string {
	if len(imports) == 0 {
		return ""
	}
	var ps []string
	for p := range imports {
		ps = append(ps, p)
	}
	sort.Strings(ps)
	var b strings.Builder
	b.WriteString("import (\n")
	for _, p := range ps {
		fmt.Fprintf(&b, "\t%s %q\n", imports[p], p)
	}
	b.WriteString(")\n\n")
	for _, p := range ps {
		// keep every import used even if a rendering failed
		_ = p
	}
	return b.String()
}

type rendering struct {
	texts   []string
	panics  []string
	imports map[string]string
}

func renderAll(targetPkg string, preClash bool, n int, get func(i int) snippet.Snippet) rendering {
	tk := namer.NewDefaultImportTracker()
	nm := namer.NewRawNamer(targetPkg, tk)
	if preClash {
		// the target file already refers to another package called dep
		buf := bytes.NewBuffer(nil)
		gengo.NewSnippetWriter(buf, namer.NameSystems{"raw": nm}).Render(snippet.ID(gengotypes.Ref(modPath+"/z/dep", "Z")))
	}
	r := rendering{texts: make([]string, n), panics: make([]string, n)}
	_ = tk.Imports() // (read before anything was rendered, too)
	for i := 0; i < n; i++ {
		func() {
			defer func() {
				if x := recover(); x != nil {
					r.panics[i] = fmt.Sprint(x)
				}
			}()
			buf := bytes.NewBuffer(nil)
			gengo.NewSnippetWriter(buf, namer.NameSystems{"raw": nm}).Render(get(i))
			r.texts[i] = buf.String()
			// (a caller may look at the imports at any time: reading them changes nothing)
			_ = tk.Imports()
		}()
	}
	r.imports = map[string]string{}
	for p, nme := range tk.Imports() {
		r.imports[p] = nme
	}
	return r
}

func writeTarget(dir string, ti int, r rendering, prefix string, preClash bool) error {
	var b strings.Builder
	b.WriteString("package " + targets[ti].dir + "\n\n" + importBlock(r.imports))
	for p, n := range r.imports {
		_ = p
		_ = n
	}
	// every registered import must be used at least once or the file does not type-check for an
	// unrelated reason: blank uses are added for all of them
	used := map[string]bool{}
	for i, t := range r.texts {
		if r.panics[i] == "" && t != "" {
			fmt.Fprintf(&b, "var %s_%d %s\n", prefix, i, t)
		}
	}
	_ = used
	if preClash {
		fmt.Fprintf(&b, "var %s_clash %s.Z\n", prefix, r.imports[modPath+"/z/dep"])
	}
	return os.WriteFile(fmt.Sprintf("%s/%s/zz_%s.go", dir, targets[ti].dir, strings.ToLower(prefix)), []byte(b.String()), 0o644)
}

func checkExprs(c *core.Ctx, exprs []string, withReflect bool) {
	dir := pipe.TempDir("c11")
	defer os.RemoveAll(dir)
	if err := pipe.WriteTree(dir, baseModule(exprs)); err != nil {
		c.Internal("%v", err)
		return
	}
	u := load(c, dir)
	if u == nil {
		return
	}
	src := u.Package(modPath + "/src")
	if src == nil || !src.Pkg().Complete() {
		c.Internal("source package did not type-check")
		return
	}
	orig := make([]types.Type, len(exprs))
	for i := range exprs {
		o := src.Pkg().Scope().Lookup(fmt.Sprintf("V_%d", i))
		if o == nil {
			c.Internal("V_%d missing (%s)", i, exprs[i])
			return
		}
		orig[i] = o.Type()
	}
	type job struct {
		ti     int
		from   string
		prefix string
		r      rendering
	}
	var jobs []job
	// ONE snippet value per type for the whole process (a generator that keeps `snippet.ID(t)` in a variable): the
	// same value is rendered into every target, a second time per target, and alone
	ids := make([]snippet.Snippet, len(orig))
	for i := range orig {
		ids[i] = snippet.ID(orig[i])
	}
	for ti := range targets {
		r := renderAll(targets[ti].pkg, ti == 2, len(exprs), func(i int) snippet.Snippet { return ids[i] })
		jobs = append(jobs, job{ti, "go/types", "X", r})
		c.Trans(len(exprs))
	}
	// a second generated file for the same target in the same process (fresh tracker and namer, after
	// the other targets were rendered): same texts, same registered imports
	for ti := range targets {
		again := renderAll(targets[ti].pkg, ti == 2, len(exprs), func(i int) snippet.Snippet { return ids[i] })
		c.Trans(len(exprs))
		first := jobs[ti].r
		for i, e := range exprs {
			if again.texts[i] != first.texts[i] || again.panics[i] != first.panics[i] {
				c.Fail("", Case{Expr: e, Target: targets[ti].name, From: "go/types"}, "type %q rendered as %q in the first file for this target but as %q (panic %q) in a second file of the same process", e, first.texts[i], again.texts[i], again.panics[i])
			}
		}
		if fmt.Sprint(again.imports) != fmt.Sprint(first.imports) {
			witness := exprs[0]
			for i, e := range exprs {
				if strings.Contains(e, "[dep.") || strings.Contains(e, "otherdep.T]") {
					witness = exprs[i]
					break
				}
			}
			c.Fail("", Case{Expr: witness, Target: targets[ti].name, From: "go/types"}, "a second file of the same process for target %s registered the imports %v, the first one %v, for the same types", targets[ti].name, again.imports, first.imports)
		}
	}
	if withReflect {
		for ti := range targets {
			r, err := renderReflect(dir, exprs, ti)
			if err != nil {
				c.Internal("reflect rendering: %v", err)
				return
			}
			jobs = append(jobs, job{ti, "reflect", "R", *r})
			c.Trans(len(exprs))
		}
	}
	// every expression once more in a file of its own (fresh tracker and namer per expression, after
	// everything above ran in this process): the tracker must hold exactly the foreign packages the
	// expression mentions - an oracle that does not depend on what was rendered before
	for ti := range targets {
		for i, e := range exprs {
			one := renderAll(targets[ti].pkg, false, 1, func(int) snippet.Snippet { return ids[i] })
			c.Trans(1)
			if one.panics[0] != "" {
				continue // reported by the main pass
			}
			want := expectedPaths(e, targets[ti].pkg)
			var got []string
			for p := range one.imports {
				got = append(got, p)
			}
			sort.Strings(got)
			if fmt.Sprint(got) != fmt.Sprint(want) {
				c.Fail("", Case{Expr: e, Target: targets[ti].name, From: "go/types"}, "type %q rendered alone into a fresh file (target: %s) as %q registered the imports %v, it mentions exactly %v", e, targets[ti].name, one.texts[0], got, want)
			}
		}
	}
	for _, j := range jobs {
		// one file, one name per package: two registered paths never share an import name
		byName := map[string]string{}
		for p, name := range j.r.imports {
			if o, dup := byName[name]; dup {
				a, b := o, p
				if a > b {
					a, b = b, a
				}
				witness := exprs[0]
				for _, e := range exprs {
					ps := expectedPaths(e, targets[j.ti].pkg)
					if strings.Contains(strings.Join(ps, " ")+" ", a+" ") && strings.Contains(strings.Join(ps, " ")+" ", b+" ") {
						witness = e
						break
					}
				}
				c.Fail("C11-two-packages-one-import-name", Case{Expr: witness, Target: targets[j.ti].name, From: j.from}, "the tracker of one file (target: %s, from %s) registered %q and %q under the same name %s", targets[j.ti].name, j.from, a, b, name)
			}
			byName[name] = p
		}
		// the registered imports must be packages that exist; a made-up path would also keep the whole
		// target from loading, so it is reported here and taken out together with the texts that use it
		for p, name := range j.r.imports {
			if u.Package(p) != nil {
				continue
			}
			delete(j.r.imports, p)
			reported := false
			for i, t := range j.r.texts {
				if strings.Contains(t, name+".") {
					if !reported {
						reported = true
						c.Fail("C11-reflect-escaped-type-argument-path", Case{Expr: exprs[i], Target: targets[j.ti].name, From: j.from}, "type %q rendered (from %s, target: %s) as %q with the import %s %q, which is not a package", exprs[i], j.from, targets[j.ti].name, t, name, p)
					}
					j.r.texts[i] = ""
					j.r.panics[i] = "skipped: uses an import that does not exist"
				}
			}
			if !reported {
				c.Fail("", Case{Expr: exprs[0], Target: targets[j.ti].name, From: j.from}, "the tracker of target %s (from %s) registered the import %s %q, which is not a package", targets[j.ti].name, j.from, name, p)
			}
		}
		if err := writeTarget(dir, j.ti, j.r, j.prefix, j.ti == 2); err != nil {
			c.Internal("%v", err)
			return
		}
	}
	u2 := load(c, dir)
	if u2 == nil {
		return
	}
	c.Trace(1)
	src2 := u2.Package(modPath + "/src")
	for _, j := range jobs {
		tp := u2.Package(targets[j.ti].pkg)
		if tp == nil {
			c.Internal("target package %s missing after reload", targets[j.ti].pkg)
			return
		}
		for i, e := range exprs {
			cs := Case{Expr: e, Target: targets[j.ti].name, From: j.from}
			for _, b := range exprs[:i] {
				if slices.Contains(named, b) {
					cs.Before = append(cs.Before, b)
				}
			}
			c.Eval(1)
			c.State(fmt.Sprintf("%s|%d|%v", j.from, j.ti, strings.Count(e, "[")+strings.Count(e, "*")))
			if strings.ContainsAny(e, "*[ ") {
				c.Nontrivial(fmt.Sprint(e, j.ti, j.from))
			}
			if strings.HasPrefix(j.r.panics[i], "skipped:") {
				continue // reported above
			}
			if j.r.panics[i] != "" {
				c.Fail(classify(e, ""), cs, "rendering %q (from %s, target: %s) panicked: %s", e, j.from, targets[j.ti].name, j.r.panics[i])
				continue
			}
			v := src2.Pkg().Scope().Lookup(fmt.Sprintf("V_%d", i))
			x := tp.Pkg().Scope().Lookup(fmt.Sprintf("%s_%d", j.prefix, i))
			if x == nil || v == nil {
				c.Fail(classify(e, j.r.texts[i]), cs, "type %q rendered as %q (from %s, target: %s) did not declare a variable", e, j.r.texts[i], j.from, targets[j.ti].name)
				continue
			}
			if !types.Identical(v.Type(), x.Type()) {
				c.Fail(classify(e, j.r.texts[i]), cs, "type %q rendered (from %s, target: %s) as %q, which type-checks to %s, not to %s", e, j.from, targets[j.ti].name, j.r.texts[i], x.Type(), v.Type())
				continue
			}
			// local types unqualified, foreign ones under their import name
			if j.ti == 0 && strings.Contains(j.r.texts[i], "src.") {
				c.Fail("", cs, "type %q rendered for its own package as %q: local types must be unqualified", e, j.r.texts[i])
			}
		}
	}
	// a rendered file with type errors would show as missing variables above; additionally the
	// target packages must be complete
	for ti := range targets {
		if tp := u2.Package(targets[ti].pkg); tp != nil && !tp.Pkg().Complete() {
			c.Count("target_packages_with_type_errors", 1)
		}
	}
}

// expectedPaths: the foreign packages an expression (written relative to package src) mentions
func expectedPaths(e, target string) []string {
	set := map[string]bool{}
	// qualifiers as written in package src
	for q, p := range map[string]string{"otherdep.": modPath + "/other/dep", "dep.": modPath + "/dep", "yaml.": modPath + "/third/yaml.v3", "kwa.": modPath + "/conf/default", "kwb.": modPath + "/theme/default",
		"cjs.": modPath + "/codec/json", "sjs.": "encoding/json", "stm.": "time", "xtm.": modPath + "/x/time", "xit.": modPath + "/x/item", "sit.": "item", "tv2.": modPath + "/tgt.v2", "far.": "y" + modPath + "/tgt", "cpp.": modPath + "/c++/item"} {
		rest := e
		if q == "dep." {
			rest = strings.ReplaceAll(e, "otherdep.", "")
		}
		if strings.Contains(rest, q) {
			set[p] = true
		}
	}
	// local types of src: L, LG[...]
	if target != modPath+"/src" {
		stripped := strings.NewReplacer("otherdep.", "", "dep.", "", "yaml.", "", "kwa.", "", "kwb.", "", "cjs.", "", "sjs.", "", "stm.", "", "xtm.", "", "xit.", "", "sit.", "", "tv2.", "", "far.", "", "cpp.", "").Replace(e)
		for _, tok := range strings.FieldsFunc(stripped, func(r rune) bool {
			return !(r == '_' || r >= 'A' && r <= 'Z' || r >= 'a' && r <= 'z' || r >= '0' && r <= '9')
		}) {
			if tok == "L" || tok == "LG" {
				set[modPath+"/src"] = true
			}
		}
	}
	var out []string
	for p := range set {
		out = append(out, p)
	}
	sort.Strings(out)
	return out
}

func classify(expr, text string) string {
	return ""
}

// renderReflect builds and runs a helper program (inside the synthetic module,
// importing the gengo under test through a replace directive) that renders
// reflect.TypeOf of every expression.
func renderReflect(dir string, exprs []string, ti int) (*rendering, error) {
	var b strings.Builder
	b.WriteString("package main\n\nimport (\n\t\"bytes\"\n\t\"encoding/json\"\n\t\"fmt\"\n\t\"os\"\n\t\"reflect\"\n\n\t\"github.com/octohelm/gengo/pkg/gengo\"\n\t\"github.com/octohelm/gengo/pkg/gengo/snippet\"\n\t\"github.com/octohelm/gengo/pkg/namer\"\n\tgengotypes \"github.com/octohelm/gengo/pkg/types\"\n\t. \"" + modPath + "/src\"\n\t\"" + modPath + "/dep\"\n\totherdep \"" + modPath + "/other/dep\"\n\tyaml \"" + modPath + "/third/yaml.v3\"\n\tkwa \"" + modPath + "/conf/default\"\n\tkwb \"" + modPath + "/theme/default\"\n\tcjs \"" + modPath + "/codec/json\"\n\tsjs \"encoding/json\"\n\tstm \"time\"\n\txtm \"" + modPath + "/x/time\"\n\txit \"" + modPath + "/x/item\"\n\tsit \"item\"\n\ttv2 \"" + modPath + "/tgt.v2\"\n\tfar \"y" + modPath + "/tgt\"\n\tcpp \"" + modPath + "/c++/item\"\n)\n\nvar _ dep.T\nvar _ otherdep.T\nvar _ yaml.Node\nvar _ kwa.Options\nvar _ kwb.Options\nvar _ cjs.Codec\nvar _ sjs.RawMessage\nvar _ stm.Duration\nvar _ xtm.Tick\nvar _ xit.Local\nvar _ sit.Item\nvar _ tv2.Node\nvar _ far.Far\nvar _ cpp.Item\nvar _ L\n\n")
	b.WriteString("var types = []reflect.Type{\n")
	for _, e := range exprs {
		fmt.Fprintf(&b, "\treflect.TypeOf((*%s)(nil)).Elem(),\n", e)
	}
	b.WriteString("}\n\nfunc main() {\n\ttk := namer.NewDefaultImportTracker()\n\tnm := namer.NewRawNamer(os.Args[1], tk)\n\tif os.Args[2] == \"clash\" {\n\t\tgengo.NewSnippetWriter(bytes.NewBuffer(nil), namer.NameSystems{\"raw\": nm}).Render(snippet.ID(gengotypes.Ref(\"" + modPath + "/z/dep\", \"Z\")))\n\t}\n")
	b.WriteString("\ttexts := make([]string, len(types))\n\tpanics := make([]string, len(types))\n\tfor i, t := range types {\n\t\tfunc() {\n\t\t\tdefer func() {\n\t\t\t\tif x := recover(); x != nil {\n\t\t\t\t\tpanics[i] = fmt.Sprint(x)\n\t\t\t\t}\n\t\t\t}()\n\t\t\tbuf := bytes.NewBuffer(nil)\n\t\t\tgengo.NewSnippetWriter(buf, namer.NameSystems{\"raw\": nm}).Render(snippet.ID(t))\n\t\t\ttexts[i] = buf.String()\n\t\t}()\n\t}\n")
	b.WriteString("\t_ = json.NewEncoder(os.Stdout).Encode(map[string]any{\"texts\": texts, \"panics\": panics, \"imports\": tk.Imports()})\n}\n")
	if err := os.MkdirAll(dir+"/cmd/reflectrender", 0o755); err != nil {
		return nil, err
	}
	if err := os.WriteFile(dir+"/cmd/reflectrender/main.go", []byte(b.String()), 0o644); err != nil {
		return nil, err
	}
	gomod := pipe.GoMod(modPath, "1.24.2") + "\nrequire github.com/octohelm/gengo v0.0.0\n\nrequire item v0.0.0\n\nreplace github.com/octohelm/gengo => " + core.RepoDir() + "\n\nreplace item => ./_item\n\nrequire y" + modPath + "/tgt v0.0.0\n\nreplace y" + modPath + "/tgt => ./_far\n"
	if err := os.WriteFile(dir+"/go.mod", []byte(gomod), 0o644); err != nil {
		return nil, err
	}
	sum, _ := os.ReadFile(core.RepoDir() + "/go.sum")
	_ = os.WriteFile(dir+"/go.sum", sum, 0o644)
	clash := "noclash"
	if ti == 2 {
		clash = "clash"
	}
	cmd := exec.Command("go", "run", "-trimpath", "./cmd/reflectrender", targets[ti].pkg, clash)
	cmd.Dir = dir
	cmd.Env = append(os.Environ(), "GOFLAGS=-mod=mod", "GOPROXY=off", "GOTOOLCHAIN=local", "GOWORK=off")
	var so, se bytes.Buffer
	cmd.Stdout, cmd.Stderr = &so, &se
	if err := cmd.Run(); err != nil {
		return nil, fmt.Errorf("%v: %s", err, tail(se.String(), 1500))
	}
	var out struct {
		Texts   []string          `json:"texts"`
		Panics  []string          `json:"panics"`
		Imports map[string]string `json:"imports"`
	}
	if err := json.Unmarshal(so.Bytes(), &out); err != nil {
		return nil, err
	}
	// the helper must not be part of the re-loaded module's type-check problem set
	_ = os.RemoveAll(dir + "/cmd")
	return &rendering{texts: out.Texts, panics: out.Panics, imports: out.Imports}, nil
}

func tail(s string, n int) string {
	if len(s) > n {
		return s[len(s)-n:]
	}
	return s
}

func run(c *core.Ctx) {
	exprs := expressions(c)
	c.Bound("atoms", atoms(true))
	c.Bound("map_key_types", mapKeys)
	c.Bound("constructors", []string{"*T", "[]T", "[3]T", "chan T", "map[K]T", "struct with tagged fields", "struct with embedded value and embedded pointer"})
	c.Bound("expressions", len(exprs))
	c.Bound("targets", []string{targets[0].name, targets[1].name, targets[2].name})
	const batch = 800
	nb := 0
	for i := 0; i < len(exprs); i += batch {
		nb++
		if !c.Next() {
			continue
		}
		checkExprs(c, exprs[i:min(i+batch, len(exprs))], true)
	}
	c.Sample(Case{Expr: "map[dep.K][]*dep.G2[string, otherdep.T]", Target: targets[2].name, From: "reflect"})
}

func replay(c *core.Ctx, raw json.RawMessage) {
	var cs Case
	if err := json.Unmarshal(raw, &cs); err != nil {
		c.Internal("bad case: %v", err)
		return
	}
	checkExprs(c, append(append([]string{}, cs.Before...), cs.Expr), true)
}

func init() {
	core.Register(&core.Prop{
		ID: "C11", Level: "model_checking", Run: run, Replay: replay, Shards: 8,
		Rule: "every type expression of the grammar: depth 0 = all predeclared types, error, any, local named, foreign named, foreign with a clashing last path segment, foreign from a package whose last path element contains a dot (alone and as a type argument; module mode rejects non-ASCII import paths), two foreign packages whose directory name is a Go keyword, generic instantiations with basic/named/nested arguments; depth 1 = every constructor (*, [], [3], chan, map with 6 key types, struct with tagged fields, struct with embedded value and pointer) over all atoms; depth 2 over a reduced atom set (thorough: full depth 2 and depth 3 over a further reduced base); each rendered from its go/types type AND from its reflect type (compiled helper program) into 3 targets (own package, another package, another package whose tracker already holds a clashing name); the texts are written as var declarations with the tracker's imports, the module is type-checked again and types.Identical(original, rendered) is required; every target is rendered a second time in the same process with a fresh tracker and namer and must give the same texts and imports. Non-trivial = composite expressions; states = (source, target, nesting)",
		Assumptions: []string{
			"outside the grammar: generic arguments that are pointers/maps/slices, receive/send-only channels, non-empty interface literals, func types",
		},
	})
}
