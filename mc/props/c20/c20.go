//go:build sched

// Package c20: inflection is total, pure, only rewrites the last word, and is
// safe under concurrency. Built with the zzsync overlay (tag sched): the
// memoisation cache's sync.Map / sync.OnceValue operations are scheduling
// points of a cooperative scheduler and ALL interleavings of small caller
// configurations are explored; the sequential part enumerates every irregular
// and uninflected word (read from the tree's rules.go) x prefixes x cases, all
// short strings over a folding-sensitive alphabet, and fresh-process call
// sequences. A free-running -race pass of the same bodies is the complement.
package c20

import (
	"encoding/json"
	"fmt"
	"go/ast"
	"go/parser"
	"go/token"
	"os"
	"os/exec"
	"path/filepath"
	"strconv"
	"strings"
	"sync"
	"unicode"
	"unicode/utf8"

	"github.com/octohelm/gengo/pkg/inflector"
	"github.com/octohelm/gengo/pkg/zzsync"
	"verif/mc/core"
)

var fns = []func(string) string{inflector.Pluralize, inflector.Singularize}
var fnNames = []string{"Pluralize", "Singularize"}

func call(f int, s string) (out string, pan any) {
	defer func() { pan = recover() }()
	return fns[f](s), nil
}

// ---------------------------------------------------------------- word lists from the tree

type irregular struct {
	dir  int // 0 plural rule, 1 singular rule
	word string
	repl string
}

func loadRules() (irr []irregular, uninfl []string, err error) {
	dir := filepath.Join(core.RepoDir(), "pkg/inflector/internal")
	fset := token.NewFileSet()
	pkgs, err := parser.ParseDir(fset, dir, nil, 0)
	if err != nil {
		return nil, nil, err
	}
	for _, p := range pkgs {
		for _, f := range p.Files {
			ast.Inspect(f, func(n ast.Node) bool {
				switch x := n.(type) {
				case *ast.CompositeLit:
					// &Rule{Type: Plural|Singular, ..., Irregular: []*IrregularItem{{`w`, `r`}, ...}}
					if id, ok := x.Type.(*ast.Ident); ok && id.Name == "Rule" {
						d := -1
						for _, e := range x.Elts {
							kv, ok := e.(*ast.KeyValueExpr)
							if !ok {
								continue
							}
							k := kv.Key.(*ast.Ident).Name
							if k == "Type" {
								if v, ok := kv.Value.(*ast.Ident); ok {
									if v.Name == "Plural" {
										d = 0
									} else if v.Name == "Singular" {
										d = 1
									}
								}
							}
						}
						for _, e := range x.Elts {
							kv, ok := e.(*ast.KeyValueExpr)
							if !ok || kv.Key.(*ast.Ident).Name != "Irregular" {
								continue
							}
							if cl, ok := kv.Value.(*ast.CompositeLit); ok {
								for _, it := range cl.Elts {
									if icl, ok := it.(*ast.CompositeLit); ok && len(icl.Elts) == 2 {
										w, _ := strconv.Unquote(icl.Elts[0].(*ast.BasicLit).Value)
										r, _ := strconv.Unquote(icl.Elts[1].(*ast.BasicLit).Value)
										irr = append(irr, irregular{d, w, r})
									}
								}
							}
						}
					}
				case *ast.ValueSpec:
					for i, name := range x.Names {
						if strings.HasPrefix(name.Name, "uninflected") && i < len(x.Values) {
							if cl, ok := x.Values[i].(*ast.CompositeLit); ok {
								for _, e := range cl.Elts {
									if bl, ok := e.(*ast.BasicLit); ok {
										s, _ := strconv.Unquote(bl.Value)
										// literal instance of the pattern
										s = strings.NewReplacer(".*?", "", ".*", "", "[nrlm]", "n", "[- ]", "-").Replace(s)
										uninfl = append(uninfl, s)
									}
								}
							}
						}
					}
				}
				return true
			})
		}
	}
	return
}

// ---------------------------------------------------------------- sequential part

type Case struct {
	F      int        `json:"f"` // 0 Pluralize, 1 Singularize
	S      string     `json:"s_quoted,omitempty"`
	Prefix string     `json:"prefix_quoted,omitempty"`
	Word   string     `json:"word,omitempty"`
	Seq    []Op       `json:"fresh_process_sequence,omitempty"`
	Sched  *SchedCase `json:"interleaving,omitempty"`
}

type Op struct {
	F int    `json:"f"`
	S string `json:"s_quoted"`
}

func q(s string) string { return fmt.Sprintf("%+q", s) }
func unq(s string) string {
	v, err := strconv.Unquote(s)
	if err != nil {
		return s
	}
	return v
}

func cases(w string) []string {
	return []string{strings.ToLower(w), strings.ToUpper(w), strings.ToUpper(w[:1]) + strings.ToLower(w[1:])}
}

var prefixes = []string{"", "old-", "old ", "big.", "é ", "x9 ", "Old ", "OLD-", "a b-c ", "ſ-", "line one\nold ", "tab\tsep-"}

func lenChanging(r rune) bool {
	n := utf8.RuneLen(r)
	return utf8.RuneLen(unicode.ToLower(r)) != n || utf8.RuneLen(unicode.ToUpper(r)) != n || utf8.RuneLen(unicode.ToTitle(r)) != n || len(strings.ToLower(string(r))) != n || len(strings.ToUpper(string(r))) != n
}

func checkTotalPure(c *core.Ctx, f int, s string) (string, bool) {
	c.Eval(1)
	c.Trans(2)
	cs := Case{F: f, S: q(s)}
	a, p := call(f, s)
	if p != nil {
		c.Fail(classFold(s), cs, "%s(%s) panicked: %v", fnNames[f], q(s), p)
		return "", false
	}
	b, p := call(f, s)
	if p != nil || a != b {
		c.Fail("", cs, "%s(%s) is not pure: %q then %q (panic=%v)", fnNames[f], q(s), a, b, p)
		return "", false
	}
	return a, true
}

// recorded defect class: the input contains a rune that case-folds to an ASCII
// letter but does not lower-case to it (U+017F long s, U+212A Kelvin)
func classFold(s string) string {
	if strings.ContainsAny(s, "ſK") {
		return "C20-irregular-match-by-case-folding-panics"
	}
	return ""
}

func checkPrefix(c *core.Ctx, f int, prefix, w string) {
	alone, ok := checkTotalPure(c, f, w)
	if !ok {
		return
	}
	got, ok := checkTotalPure(c, f, prefix+w)
	if !ok {
		return
	}
	c.State(fmt.Sprintf("prefix/%d/%q/%v", f, prefix, got == prefix+alone))
	if prefix != "" {
		c.Nontrivial(fmt.Sprint(f, prefix, w))
	}
	if got != prefix+alone {
		class := ""
		if prefix != "" && len(alone) > 0 && got == prefix+prefix[:1]+alone[1:] {
			class = "C20-first-letter-taken-from-whole-input"
		}
		if i := strings.LastIndex(prefix, "\n"); i >= 0 && got == prefix[i+1:]+alone {
			class = "C20-text-before-a-newline-dropped"
		}
		c.Fail(class, Case{F: f, Prefix: q(prefix), Word: w}, "%s(%s) = %q, want %q (everything before the irregular word preserved, the word inflected as on its own: %s(%q) = %q)", fnNames[f], q(prefix+w), got, prefix+alone, fnNames[f], w, alone)
	}
}

var shortAlphabet = []string{"s", "x", "y", "o", "-", " ", "é", "ſ", "K", "S"}

func buildStr(ch *core.Chooser, alpha []string, maxLen int) string {
	var b strings.Builder
	for i := 0; i < maxLen; i++ {
		k := ch.Choose(len(alpha) + 1)
		if k == 0 {
			break
		}
		b.WriteString(alpha[k-1])
	}
	return b.String()
}

// ---------------------------------------------------------------- fresh-process sequences

func seqWorker(args []string) int {
	var ops []Op
	if err := json.NewDecoder(os.Stdin).Decode(&ops); err != nil {
		return 2
	}
	outs := make([]string, len(ops))
	for i, op := range ops {
		r, p := call(op.F, unq(op.S))
		if p != nil {
			r = fmt.Sprintf("PANIC: %v", p)
		}
		outs[i] = q(r)
	}
	_ = json.NewEncoder(os.Stdout).Encode(outs)
	return 0
}

func runSeq(c *core.Ctx, ops []Op) ([]string, bool) {
	in, _ := json.Marshal(ops)
	out, errb, err := core.RunWorker("c20seq", in)
	if err != nil {
		c.Internal("sequence worker failed: %v %s", err, errb)
		return nil, false
	}
	var outs []string
	if err := json.Unmarshal(out, &outs); err != nil || len(outs) != len(ops) {
		c.Internal("sequence worker output: %v %q", err, out)
		return nil, false
	}
	c.Trans(len(ops))
	return outs, true
}

var refMu sync.Mutex
var refCache = map[Op]string{}

func single(c *core.Ctx, op Op) (string, bool) {
	refMu.Lock()
	v, ok := refCache[op]
	refMu.Unlock()
	if ok {
		return v, true
	}
	outs, ok := runSeq(c, []Op{op})
	if !ok {
		return "", false
	}
	refMu.Lock()
	refCache[op] = outs[0]
	refMu.Unlock()
	return outs[0], true
}

func checkSeq(c *core.Ctx, ops []Op) {
	c.Eval(1)
	c.Trace(1)
	outs, ok := runSeq(c, ops)
	if !ok {
		return
	}
	c.State("seq/" + strings.Join(outs, "/"))
	c.Nontrivial(fmt.Sprint(ops))
	for i, op := range ops {
		ref, ok := single(c, op)
		if !ok {
			return
		}
		if outs[i] != ref {
			c.Fail("", Case{Seq: ops}, "in a fresh process, call %d of %v returned %s, but the same call as the only call of a fresh process returns %s", i+1, ops, outs[i], ref)
			return
		}
	}
}

// (function, input) pairs that share or differ in key, direction, case and last word
var seqOps = []Op{
	{0, q("person")}, {1, q("person")}, {0, q("people")}, {1, q("people")},
	{0, q("Person")}, {0, q("old person")}, {0, q("box")}, {1, q("boxes")},
}

// ---------------------------------------------------------------- interleavings

type SchedCase struct {
	Scenario string `json:"scenario"`
	Warm     []Op   `json:"pre_warmed_cache,omitempty"`
	Threads  [][]Op `json:"threads"`
	Choices  []int  `json:"schedule_choices,omitempty"`
	Bound    int    `json:"deviation_bound"`
}

var scenarios = []SchedCase{
	{Scenario: "2 threads x 2 calls, same key", Threads: [][]Op{{{0, "person"}, {0, "person"}}, {{0, "person"}, {0, "person"}}}, Bound: -1},
	{Scenario: "2 threads x 2 calls, same key in both directions", Threads: [][]Op{{{0, "person"}, {1, "person"}}, {{1, "person"}, {0, "person"}}}, Bound: -1},
	{Scenario: "2 threads x 2 calls, different keys then same", Threads: [][]Op{{{0, "box"}, {0, "old person"}}, {{0, "quiz"}, {0, "old person"}}}, Bound: -1},
	{Scenario: "3 threads x 1 call, same key", Threads: [][]Op{{{0, "person"}}, {{0, "person"}}, {{0, "person"}}}, Bound: -1},
	{Scenario: "3 threads x 1 call, two share a key", Threads: [][]Op{{{0, "person"}}, {{0, "box"}}, {{0, "person"}}}, Bound: -1},
	{Scenario: "2 threads x 2 calls, pre-warmed cache", Warm: []Op{{0, "person"}}, Threads: [][]Op{{{0, "person"}, {0, "Person"}}, {{0, "Person"}, {0, "person"}}}, Bound: -1},
	{Scenario: "3 threads x 2 calls, same and different keys, deviation bound 3", Threads: [][]Op{{{0, "person"}, {1, "people"}}, {{1, "people"}, {0, "person"}}, {{0, "person"}, {0, "box"}}}, Bound: 3},
}

var seqRef = map[Op]string{}

func refOf(op Op) string {
	if v, ok := seqRef[op]; ok {
		return v
	}
	zzsync.ResetMaps()
	r, p := call(op.F, op.S)
	if p != nil {
		r = fmt.Sprintf("PANIC: %v", p)
	}
	seqRef[op] = r
	return r
}

// one execution of a scenario under the scheduler with the given chooser
func execute(sc SchedCase, choose func(n int) int) (results [][]string, s *zzsync.Scheduler) {
	zzsync.ResetMaps()
	for _, w := range sc.Warm {
		_, _ = call(w.F, w.S)
	}
	results = make([][]string, len(sc.Threads))
	bodies := make([]func(), len(sc.Threads))
	for i := range sc.Threads {
		i := i
		results[i] = make([]string, len(sc.Threads[i]))
		bodies[i] = func() {
			for k, op := range sc.Threads[i] {
				r, p := call(op.F, op.S)
				if p != nil {
					r = fmt.Sprintf("PANIC: %v", p)
				}
				results[i][k] = r
			}
		}
	}
	s = zzsync.Run(choose, bodies...)
	return
}

func judge(c *core.Ctx, sc SchedCase, trace []int, results [][]string, s *zzsync.Scheduler) {
	rec := sc
	rec.Choices = trace
	cs := Case{Sched: &rec}
	if s.Dead {
		c.Fail("", cs, "deadlock in scenario %q with schedule %v: %v", sc.Scenario, trace, s.Trace)
		return
	}
	if s.Stuck {
		c.Fail("", cs, "scenario %q with schedule %v: a caller blocked for 60 s on something other than the hooked sync operations while the others were held back (%v): the call does not return under this schedule", sc.Scenario, trace, s.Trace)
		return
	}
	if len(s.Panics()) > 0 {
		c.Fail("", cs, "scenario %q schedule %v: %v", sc.Scenario, trace, s.Panics())
		return
	}
	for i := range sc.Threads {
		for k, op := range sc.Threads[i] {
			if want := refOf(op); results[i][k] != want {
				c.Fail("", cs, "scenario %q, schedule %v (%v): thread %d call %d %s(%q) returned %q, sequential reference %q", sc.Scenario, trace, s.Trace, i, k, fnNames[op.F], op.S, results[i][k], want)
				return
			}
		}
	}
}

var stuckSeen bool

func exploreScenario(c *core.Ctx, sc SchedCase) {
	// references first (sequential, cold cache)
	for _, th := range sc.Threads {
		for _, op := range th {
			refOf(op)
		}
	}
	maxPoints := 0
	defer func() {
		// The explorer makes a divergence while replaying a schedule prefix a hard error. Here it can only
		// mean that the library kept state from an earlier execution which ResetMaps does not know of (a new
		// cache) or synchronises through operations that are not hooked: the interleaving search cannot go
		// on, but that alone says nothing about the property - the sequential and fresh-process parts and the
		// race pass still judge it. Recorded as a cap (exhaustive=false), not as a verdict.
		if x := recover(); x != nil {
			if !strings.Contains(fmt.Sprint(x), "replay divergence") {
				panic(x)
			}
			stuckSeen = true // the threads of the abandoned execution stay blocked
			c.Cap(fmt.Sprintf("scenario %q: %v - executions are not a function of the schedule alone (state outside the hooked operations survives between executions); the interleaving search was abandoned", sc.Scenario, x))
			maxPoints = 99
		}
	}()
	core.Explore(c, core.ExploreOpts{Bound: sc.Bound, ShardDepth: 3}, func(ch *core.Chooser, owned bool) {
		if stuckSeen {
			// a thread of an earlier execution is still blocked somewhere: nothing run after it in this
			// process is a controlled execution any more
			ch.Abandon()
			return
		}
		results, s := execute(sc, func(n int) int { return ch.Choose(n) })
		if s.Stuck {
			stuckSeen = true
			c.Cap("an execution got stuck outside the hooked operations: the remaining schedules of this shard were not explored")
		}
		if s.Points > maxPoints {
			maxPoints = s.Points
		}
		if !owned {
			return
		}
		c.Eval(1)
		c.Trace(1)
		c.Count("schedules:"+sc.Scenario, 1)
		c.Trans(s.Points)
		c.State(sc.Scenario + "|" + strings.Join(s.Trace, ","))
		c.Nontrivial(sc.Scenario + fmt.Sprint(ch.Trace()))
		judge(c, sc, ch.Trace(), results, s)
	})
	if maxPoints < 4 {
		// the code under test performs (almost) no sync operations: there is nothing to interleave, the
		// search is vacuous and only the free-running race pass can say anything about concurrent callers
		c.Cap(fmt.Sprintf("scenario %q reached only %d scheduling points: pkg/inflector does not synchronise through package sync, the interleaving search is vacuous", sc.Scenario, maxPoints))
	}
}

// ---------------------------------------------------------------- race pass (complement)

func racePass(c *core.Ctx) {
	bin := filepath.Join(core.Root(), "bin", "vcheck-race")
	if _, err := os.Stat(bin); err != nil {
		c.Internal("race binary missing: %v", err)
		return
	}
	// cold starts first: fresh processes whose first use of the package is concurrent
	colds := [][]string{{"worker", "c20cold", "mixed"}, {"worker", "c20cold", "pluralize"}, {"worker", "c20cold", "singularize"}}
	reps := c.Pick(3, 12)
	c.Bound("race_pass_cold_start_processes", len(colds)*reps)
	for i := 0; i < reps; i++ {
		for _, a := range colds {
			if !raceRun(c, bin, a...) {
				return
			}
		}
	}
	if !raceRun(c, bin, "worker", "c20race") {
		return
	}
	// a long-running process: many thousand DISTINCT inputs per rule from several goroutines while others keep
	// asking for the same few (whatever bounds, evicts or rebuilds the memo does so under their feet)
	raceRun(c, bin, "worker", "c20many")
	c.Bound("race_pass_distinct_inputs_per_rule", 8*3000)
}

func raceRun(c *core.Ctx, bin string, args ...string) bool {
	cmd := exec.Command(bin, args...)
	cmd.Env = append(os.Environ(), "GORACE=halt_on_error=1 exitcode=66", "GOMAXPROCS=8")
	out, err := cmd.CombinedOutput()
	c.Count("race_pass_runs", 1)
	if err != nil {
		if ee, ok := err.(*exec.ExitError); ok && ee.ExitCode() == 66 {
			_ = os.MkdirAll(filepath.Join(core.Root(), "replays"), 0o755)
			rp := filepath.Join(core.Root(), "replays", "C20-race-report.txt")
			_ = os.WriteFile(rp, out, 0o644)
			c.Fail("", Case{S: "free-running -race pass"}, "data race reported by the race detector with concurrent callers %v (report in %s):\n%s", args, rp, tail(string(out), 1500))
			return false
		}
		if ee, ok := err.(*exec.ExitError); ok && (ee.ExitCode() == 1 || ee.ExitCode() == 2) {
			c.Fail("", Case{S: "free-running -race pass"}, "concurrent callers %v observed a wrong result or panicked:\n%s", args, tail(string(out), 1500))
			return false
		}
		c.Internal("race pass failed to run: %v\n%s", err, tail(string(out), 800))
		return false
	}
	return true
}

func tail(s string, n int) string {
	if len(s) > n {
		return s[len(s)-n:]
	}
	return s
}

// ---------------------------------------------------------------- driver

func run(c *core.Ctx) {
	irr, uninfl, err := loadRules()
	if err != nil || len(irr) < 10 || len(uninfl) < 10 {
		c.Internal("cannot read the rules from the tree: %v (irregular=%d uninflected=%d)", err, len(irr), len(uninfl))
		return
	}
	c.Bound("irregular_words_read_from_tree", len(irr))
	c.Bound("uninflected_patterns_read_from_tree", len(uninfl))
	c.Bound("prefixes", prefixes)
	c.Bound("short_string_alphabet", shortAlphabet)
	c.Bound("short_string_max_len", c.Pick(3, 5))

	// every irregular word (both columns, both directions) x prefixes x cases
	for _, it := range irr {
		for _, w := range []string{it.word, it.repl} {
			for _, cw := range cases(w) {
				for _, p := range prefixes {
					for f := range fns {
						if !c.Next() {
							continue
						}
						// the prefix claim applies when the word is irregular for this direction
						if f == it.dir && w == it.word {
							checkPrefix(c, f, p, cw)
							if p == "old " {
								// prefixes that contain the very same word (same spelling), alone and inside longer words
								for _, pp := range []string{cw + " for ", "x" + cw + " ", "un" + cw + "ly-", cw + cw + " ", cw + "-" + cw + "-"} {
									checkPrefix(c, f, pp, cw)
								}
							}
						} else {
							checkTotalPure(c, f, p+cw)
						}
					}
				}
			}
		}
	}
	c.Sample(map[string]any{"call": "Pluralize(\"old-Person\")", "oracle": "== \"old-\" + Pluralize(\"Person\")"})
	// every uninflected pattern instance x prefixes x cases: totality and purity
	for _, w := range uninfl {
		if w == "" {
			continue
		}
		for _, cw := range cases(w) {
			for _, p := range prefixes {
				for f := range fns {
					if !c.Next() {
						continue
					}
					checkTotalPure(c, f, p+cw)
				}
			}
		}
	}
	// folding-sensitive variants of every irregular word: each ASCII s/k replaced by U+017F / U+212A
	for _, it := range irr {
		for i, r := range it.word {
			var repl string
			switch unicode.ToLower(r) {
			case 's':
				repl = "ſ"
			case 'k':
				repl = "K"
			default:
				continue
			}
			w := it.word[:i] + repl + it.word[i+1:]
			for f := range fns {
				if !c.Next() {
					continue
				}
				checkTotalPure(c, f, w)
				checkTotalPure(c, f, "old "+w)
			}
		}
	}
	// all short strings
	core.Explore(c, core.ExploreOpts{Bound: -1}, func(ch *core.Chooser, _ bool) {
		s := buildStr(ch, shortAlphabet, c.Pick(3, 5))
		if !c.Next() {
			return
		}
		for f := range fns {
			if r, ok := checkTotalPure(c, f, s); ok {
				c.State(fmt.Sprintf("short/%d/%v", f, r == s))
			}
		}
	})
	// the rune dimension: every code point of the BMP (thorough: every Unicode scalar value) alone, glued in
	// front of an irregular word and as the last rune of a regular one - totality and purity only
	maxRune := rune(c.Pick(0xFFFF, utf8.MaxRune))
	c.Bound("every_code_point_up_to", fmt.Sprintf("U+%04X in contexts r, r+person, bo+r", maxRune))
	for r := rune(0); r <= maxRune; r++ {
		if r >= 0xD800 && r <= 0xDFFF {
			continue
		}
		if !c.Next() {
			continue
		}
		for _, s := range []string{string(r), string(r) + "person", "bo" + string(r)} {
			for f := range fns {
				checkTotalPure(c, f, s)
			}
		}
		// the code point as a prefix in front of a word boundary: the prefix-preservation oracle
		checkPrefix(c, 0, string(r)+" ", "person")
		checkPrefix(c, 1, string(r)+"-", "men")
		if lenChanging(r) {
			// code points whose lower/upper/title mapping has another UTF-8 length, repeated so that
			// any offset computed on a case-mapped copy is off by more than the length of the word
			for _, w := range []string{"ox", "opus", "person"} {
				checkPrefix(c, 0, strings.Repeat(string(r), 6)+" ", w)
			}
			checkPrefix(c, 1, strings.Repeat(string(r), 6)+"-", "oxen")
		}
	}
	// invalid UTF-8 in the prefix (case mapping widens every bad byte to U+FFFD)
	for _, bad := range []string{"\xff ", "\xff\xfe\xfd ", "a\xc0\xaf-", "\xe2\x82 \xff-"} {
		if c.Next() {
			// (only words that are irregular for the direction fall under the prefix claim)
			for _, w := range []string{"person", "ox"} {
				checkPrefix(c, 0, bad, w)
			}
			for _, w := range []string{"men", "people"} {
				checkPrefix(c, 1, bad, w)
			}
		}
	}
	// the rules are letter-specific expressions: every lower-case ASCII word of <=4 (thorough 5) letters,
	// totality and purity (sharded by the first two letters)
	wordLen := c.Pick(4, 5)
	c.Bound("every_lower_case_ascii_word_max_len", wordLen)
	var walkWords func(prefix string, left int)
	walkWords = func(prefix string, left int) {
		for f := range fns {
			checkTotalPure(c, f, prefix)
		}
		if left == 0 {
			return
		}
		for r := 'a'; r <= 'z'; r++ {
			walkWords(prefix+string(r), left-1)
		}
	}
	for a := 'a'; a <= 'z'; a++ {
		for b := 'a'; b <= 'z'; b++ {
			if c.Next() {
				walkWords(string(a)+string(b), wordLen-2)
			}
		}
	}
	// fresh-process sequences: all sequences of length <=3 (quick 2) over 8 (function, input) pairs
	par := make(chan struct{}, 4)
	var wg sync.WaitGroup
	do := func(ops []Op) {
		if !c.Next() {
			return
		}
		wg.Add(1)
		par <- struct{}{}
		go func() {
			defer func() { <-par; wg.Done() }()
			checkSeq(c, ops)
		}()
	}
	for _, a := range seqOps {
		for _, b := range seqOps {
			do([]Op{a, b})
			if c.Thorough() {
				for _, d := range seqOps {
					do([]Op{a, b, d})
				}
			}
		}
	}
	// the answer of one direction handed to the other one as the next call of the same fresh process:
	// irregular words in every spelling of case (the answer keeps the first letter only), bare and prefixed
	feedWords := []string{"person", "man", "tooth", "child", "move", "zombie", "sex", "foot", "mouse", "ox"}[:c.Pick(5, 10)]
	spellings := []func(string) string{
		func(w string) string { return w },
		func(w string) string { return strings.ToUpper(w[:1]) + w[1:] },
		strings.ToUpper,
		func(w string) string { return w[:1] + strings.ToUpper(w[1:]) },
	}
	for _, w := range feedWords {
		plural, ok := single(c, Op{0, q(w)})
		if !ok {
			break
		}
		for d, base := range []string{w, unq(plural)} {
			for _, sp := range spellings {
				for _, pf := range []string{"", "sales-"} {
					first := Op{d, q(pf + sp(base))}
					r, ok := single(c, first)
					if !ok || strings.HasPrefix(unq(r), "PANIC") {
						continue
					}
					do([]Op{first, {1 - d, r}})
				}
			}
		}
	}
	wg.Wait()
	c.Bound("fresh_process_fed_back_words", feedWords)
	c.Bound("fresh_process_fed_back_shape", "d(x) then the other direction on d(x)'s answer; x = irregular word or its plural, 4 spellings of case, bare and behind a prefix")
	c.Bound("fresh_process_sequence_ops", seqOps)
	c.Bound("fresh_process_sequence_len", c.Pick(2, 3))

	// all interleavings of the concurrent scenarios
	all := scenarios
	if c.Thorough() {
		all = append(append([]SchedCase{}, scenarios...),
			SchedCase{Scenario: "4 threads x 1 call, same key, deviation bound 4", Threads: [][]Op{{{0, "person"}}, {{0, "person"}}, {{0, "person"}}, {{0, "person"}}}, Bound: 4},
			SchedCase{Scenario: "3 threads x 2 calls, one key in both directions, deviation bound 4", Threads: [][]Op{{{0, "man"}, {1, "men"}}, {{1, "men"}, {0, "man"}}, {{0, "man"}, {1, "man"}}}, Bound: 4},
			SchedCase{Scenario: "2 threads x 3 calls, alternating keys", Threads: [][]Op{{{0, "tooth"}, {0, "box"}, {0, "tooth"}}, {{0, "box"}, {0, "tooth"}, {0, "box"}}}, Bound: -1},
		)
	}
	var names []string
	for _, sc := range all {
		names = append(names, sc.Scenario)
		exploreScenario(c, sc)
	}
	c.Bound("interleaving_scenarios", names)
	c.Sample(map[string]any{"scenario": scenarios[3].Scenario, "threads": scenarios[3].Threads})
	// complement: the same bodies free-running under the race detector
	if c.Shard == 0 {
		racePass(c)
	}
}

func replay(c *core.Ctx, raw json.RawMessage) {
	var cs Case
	if err := json.Unmarshal(raw, &cs); err != nil {
		c.Internal("bad case: %v", err)
		return
	}
	switch {
	case cs.Sched != nil:
		sc := *cs.Sched
		ch := core.NewReplayChooser(sc.Choices)
		results, s := execute(sc, func(n int) int { return ch.Choose(n) })
		judge(c, sc, sc.Choices, results, s)
	case len(cs.Seq) > 0:
		checkSeq(c, cs.Seq)
	case cs.Word != "":
		checkPrefix(c, cs.F, unq(cs.Prefix), cs.Word)
	case cs.S == "free-running -race pass":
		racePass(c)
	default:
		checkTotalPure(c, cs.F, unq(cs.S))
	}
}

func init() {
	core.RegisterWorker("c20seq", seqWorker)
	core.Register(&core.Prop{
		ID: "C20", Level: "model_checking", Run: run, Replay: replay,
		Rule: "sequential: every irregular word (both columns of both rules, read from the tree) x 3 cases x 12 prefixes (plus 5 prefixes that contain the word itself) x both functions with the prefix-preservation oracle, every uninflected pattern instance likewise (totality/purity), folding-sensitive variants (U+017F, U+212A) of every irregular word, all strings <=3 (5) over a 10-symbol alphabet, every lower-case ASCII word of <=4 (5) letters, every BMP code point (thorough: every Unicode scalar value) alone / glued in front of an irregular word / as last rune / as a prefix in front of a word boundary (prefix oracle; code points whose case mapping changes the UTF-8 length also repeated 6 times), invalid UTF-8 prefixes, all fresh-process call sequences of length 2 (3) over 8 (function,input) pairs; concurrent: ALL interleavings at the hooked sync.Map/OnceValue operations of 7 caller scenarios (2-3 goroutines x 1-2 calls, cold and pre-warmed caches; the 3x2 scenario with deviation bound 3), every return compared with the sequential reference, deadlock = violation; complement: free-running -race pass (cold starts: fresh processes whose first use of the package is made by 16 goroutines at once; then 200 rounds of 8 warm callers). Non-trivial = prefixed inputs, sequences, schedules; states = distinct schedules (by trace) and outcome classes",
		Assumptions: []string{
			"scheduling points are the sync operations of pkg/inflector (rewritten to the zzsync shim by overlay); unsynchronised accesses are the race pass' job",
			"prefixes end in an ASCII non-word character (the statement's 'word boundary'); a non-ASCII letter glued to the word is outside the alphabet",
		},
	})
}
