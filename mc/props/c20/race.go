//go:build racepass

// Free-running complement of the interleaving search: the same caller bodies
// with the real sync package under the race detector.
package c20

import (
	"fmt"
	"sync"
	"sync/atomic"

	"github.com/octohelm/gengo/pkg/inflector"
	"verif/mc/core"
)

// cold start: the FIRST use of the package in this process is made by many goroutines at once
// (lazily initialised state is only ever unprotected then); references are computed afterwards.
var mixedCase = []string{"Person", "PERSON", "pErSoN", "Ox", "OXEN", "Men", "MAN", "Tooth", "GEESE", "Child", "Testes", "opus", "People"}

func coldStart(args []string) int {
	mode := "mixed"
	if len(args) > 0 {
		mode = args[0]
	}
	inputs := []string{"widget7", "person", "box", "sheep", "old person", "quiz", "Status", "índice"}
	type res struct{ in, p, s string }
	out := make([][]res, 16)
	var wg sync.WaitGroup
	start := make(chan struct{})
	for g := 0; g < 16; g++ {
		wg.Add(1)
		go func(g int) {
			defer wg.Done()
			<-start
			for k := 0; k < 6; k++ {
				in := inputs[(g+k)%len(inputs)]
				if k >= 3 {
					// DISTINCT strings per goroutine (the memo cannot serialise them) ending in an irregular word in
					// a spelling nobody has used yet: lazily extended lookup tables are written concurrently then
					in = fmt.Sprintf("g%d-", g) + mixedCase[(g+k)%len(mixedCase)]
				}
				r := res{in: in}
				if mode != "singularize" {
					r.p = inflector.Pluralize(in)
				}
				if mode != "pluralize" {
					r.s = inflector.Singularize(in)
				}
				out[g] = append(out[g], r)
			}
		}(g)
	}
	close(start)
	wg.Wait()
	bad := 0
	for _, rs := range out {
		for _, r := range rs {
			// "ref-" + word: another cache key, same last word
			if mode != "singularize" {
				if want := inflector.Pluralize("ref-" + r.in)[4:]; r.p != want {
					bad++
					fmt.Printf("cold-start mismatch: Pluralize(%q)=%q, sequential reference %q\n", r.in, r.p, want)
				}
			}
			if mode != "pluralize" {
				if want := inflector.Singularize("ref-" + r.in)[4:]; r.s != want {
					bad++
					fmt.Printf("cold-start mismatch: Singularize(%q)=%q, sequential reference %q\n", r.in, r.s, want)
				}
			}
		}
	}
	if bad > 0 {
		return 1
	}
	return 0
}

// manyInputs: 8 feeders with 3000 distinct names each and 4 goroutines that keep asking for a few fixed inputs.
func manyInputs(args []string) int {
	words := []string{"person", "box", "ox", "quiz", "sheep", "status"}
	fixed := map[string][2]string{}
	for _, w := range words {
		in := "fixed " + w
		fixed[in] = [2]string{inflector.Pluralize(in), inflector.Singularize(in)}
	}
	var bad atomic.Int64
	report := func(format string, a ...any) {
		if bad.Add(1) < 5 {
			fmt.Printf(format+"\n", a...)
		}
	}
	guard := func(f func()) {
		defer func() {
			if x := recover(); x != nil {
				report("panic under many distinct inputs: %v", x)
			}
		}()
		f()
	}
	var wg sync.WaitGroup
	stop := make(chan struct{})
	for g := 0; g < 4; g++ {
		wg.Add(1)
		go func() {
			defer wg.Done()
			for {
				select {
				case <-stop:
					return
				default:
				}
				for in, want := range fixed {
					guard(func() {
						if p, s := inflector.Pluralize(in), inflector.Singularize(in); p != want[0] || s != want[1] {
							report("answer changed while other callers feed distinct inputs: Pluralize(%q)=%q Singularize=%q, at first %q", in, p, s, want)
						}
					})
				}
			}
		}()
	}
	var feeders sync.WaitGroup
	for g := 0; g < 8; g++ {
		feeders.Add(1)
		go func(g int) {
			defer feeders.Done()
			for n := 0; n < 3000; n++ {
				w := words[(g+n)%len(words)]
				pre := fmt.Sprintf("g%d n%d ", g, n)
				guard(func() {
					wantP, wantS := fixed["fixed "+w][0][6:], fixed["fixed "+w][1][6:]
					if p, s := inflector.Pluralize(pre+w), inflector.Singularize(pre+w); p != pre+wantP || s != pre+wantS {
						report("Pluralize(%q)=%q Singularize=%q, the word alone gives %q / %q", pre+w, p, s, wantP, wantS)
					}
				})
			}
		}(g)
	}
	feeders.Wait()
	close(stop)
	wg.Wait()
	if bad.Load() > 0 {
		return 1
	}
	return 0
}

func init() {
	core.RegisterWorker("c20many", manyInputs)
	core.RegisterWorker("c20cold", coldStart)
	core.RegisterWorker("c20race", func(args []string) int {
		inputs := []string{"person", "Person", "old person", "box", "quiz", "people", "sheep", "status"}
		ref := map[string][2]string{}
		// references in a sequential pre-pass on distinct strings (so the concurrent phase starts cold for its own keys)
		for _, in := range inputs {
			ref[in] = [2]string{inflector.Pluralize("ref-" + in)[4:], inflector.Singularize("ref-" + in)[4:]}
		}
		bad := 0
		var mu sync.Mutex
		for round := 0; round < 200; round++ {
			var wg sync.WaitGroup
			start := make(chan struct{})
			for g := 0; g < 8; g++ {
				wg.Add(1)
				go func(g int) {
					defer wg.Done()
					<-start
					for k := 0; k < 4; k++ {
						in := fmt.Sprintf("r%d ", round) + inputs[(g+k)%len(inputs)]
						p := inflector.Pluralize(in)
						s := inflector.Singularize(in)
						w := ref[inputs[(g+k)%len(inputs)]]
						if p != fmt.Sprintf("r%d ", round)+w[0] || s != fmt.Sprintf("r%d ", round)+w[1] {
							mu.Lock()
							bad++
							if bad < 5 {
								fmt.Printf("concurrent result mismatch: Pluralize(%q)=%q Singularize=%q, reference word results %q\n", in, p, s, w)
							}
							mu.Unlock()
						}
					}
				}(g)
			}
			close(start)
			wg.Wait()
		}
		if bad > 0 {
			return 1
		}
		return 0
	})
}
