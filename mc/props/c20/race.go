//go:build racepass

// Free-running complement of the interleaving search: the same caller bodies
// with the real sync package under the race detector.
package c20

import (
	"fmt"
	"sync"

	"github.com/octohelm/gengo/pkg/inflector"
	"verif/mc/core"
)

func init() {
	core.RegisterWorker("c20race", func(args []string) int {
		inputs := []string{"person", "Person", "old person", "box", "quiz", "people", "sheep", "status"}
		ref := map[string][2]string{}
		// references in a sequential pre-pass on distinct strings (so the concurrent phase starts cold for its own keys)
		for _, in := range inputs {
			ref[in] = [2]string{inflector.Pluralize("ref-" + in)[4:], inflector.Singularize("ref-" + in)[4:]}
		}
		bad := 0
		var mu sync.Mutex
		for round := 0; round < 200; round++ {
			var wg sync.WaitGroup
			start := make(chan struct{})
			for g := 0; g < 8; g++ {
				wg.Add(1)
				go func(g int) {
					defer wg.Done()
					<-start
					for k := 0; k < 4; k++ {
						in := fmt.Sprintf("r%d ", round) + inputs[(g+k)%len(inputs)]
						p := inflector.Pluralize(in)
						s := inflector.Singularize(in)
						w := ref[inputs[(g+k)%len(inputs)]]
						if p != fmt.Sprintf("r%d ", round)+w[0] || s != fmt.Sprintf("r%d ", round)+w[1] {
							mu.Lock()
							bad++
							if bad < 5 {
								fmt.Printf("concurrent result mismatch: Pluralize(%q)=%q Singularize=%q, reference word results %q\n", in, p, s, w)
							}
							mu.Unlock()
						}
					}
				}(g)
			}
			close(start)
			wg.Wait()
		}
		if bad > 0 {
			return 1
		}
		return 0
	})
}
