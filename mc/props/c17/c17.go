// Package c17: deepcopy output compiles and copies without sharing containers.
// Type graphs are enumerated over a field-kind grammar, generated twice by the
// real deepcopy generator through the real pipeline, compiled with the pinned
// toolchain together with a harness-written check file, and run.
package c17

import (
	"encoding/json"
	"fmt"
	"os"
	"sort"
	"strings"

	"verif/mc/core"
	"verif/mc/gocheck"
	"verif/mc/pipe"
	"verif/mc/seamctl"
)

const modPath = "x.io/test"

var fieldKinds = []struct{ name, typ string }{
	{"int", "int"}, {"string", "string"}, {"[]int", "[]int"}, {"map[string]int", "map[string]int"},
	{"tagged-struct", "Sub"}, {"untagged-dependency-struct", "Dep"}, {"nested-3-levels", "Deep"},
	{"defined-scalar", "MyInt"}, {"defined-map", "MyMap"}, {"error", "error"}, {"any", "any"},
	{"named-interface", "fmt.Stringer"}, {"instantiated-generic", "G[int]"}, {"float64", "float64"},
	{"[]string", "[]string"}, {"map[string]bool", "map[string]bool"},
	{"same-package-interface", "Iface"},
	{"untagged-generic-dependency", "UG[string]"},
	// an interface that declares a copier of its own (k8s runtime.Object style)
	{"self-copying-interface", "Copier"},
	// a by-value chain whose MIDDLE struct has no container of its own: the containers sit one struct further down
	{"plain-struct-wrapping-a-struct-with-containers", "Wrap"},
	// unexported fields whose names start with an underscore (not the blank identifier)
	{"struct-with-underscore-prefixed-field-names", "Under"},
}

var aux = map[string]string{
	"Sub":    "// Sub is tagged.\n// +gengo:deepcopy\ntype Sub struct {\n\tS []int\n\tM map[string]string\n\tN int\n}\n",
	"Dep":    "// Dep is reached only as a dependency.\ntype Dep struct {\n\tS []string\n\tK string\n}\n",
	"Deep":   "// Deep nests three levels.\n// +gengo:deepcopy\ntype Deep struct {\n\tMid Mid\n\tTop []int\n}\n\ntype Mid struct {\n\tLeaf Leaf\n\tL    []int\n}\n\ntype Leaf struct {\n\tM map[string]int\n\tV float64\n}\n",
	"Wrap":   "// Wrap has no slice or map itself.\ntype Wrap struct {\n\tID    int\n\tInner Inner\n\tName  string\n}\n\n// Inner holds the containers.\ntype Inner struct {\n\tTags  []string\n\tAttrs map[string]int\n}\n",
	"Under":  "// Under has unexported fields with unusual names.\ntype Under struct {\n\t_index map[string]int\n\t_order []string\n\tX      int\n\t_rev   int\n}\n",
	"MyInt":  "type MyInt int\n",
	"MyMap":  "type MyMap map[string]string\n",
	"Iface":  "type Iface interface {\n\tM() string\n}\n\ntype impl string\n\nfunc (i impl) M() string { return string(i) }\n",
	"Copier": "// Copier copies itself.\ntype Copier interface {\n\tDeepCopyCopier() Copier\n}\n\n// CopierImpl implements Copier; a nil *CopierImpl copies to a nil interface.\ntype CopierImpl struct {\n\tN int\n\tS []int\n}\n\nfunc (i *CopierImpl) DeepCopyCopier() Copier {\n\tif i == nil {\n\t\treturn nil\n\t}\n\tc := *i\n\tc.S = append([]int(nil), i.S...)\n\treturn &c\n}\n",
	"UG":     "// UG is generic and reached only as a dependency, through an instantiation.\ntype UG[T any] struct {\n\tV T\n\tN int\n}\n",
	"G":      "// G is generic.\n// +gengo:deepcopy\ntype G[T any] struct {\n\tV T\n\tN int\n}\n",
}

type Prog struct {
	Fields     []int `json:"field_kinds"`
	PkgTag     bool  `json:"enabled_by_package_tag"`
	Interfaces bool  `json:"deepcopy_interfaces_tag"`
	Generic    bool  `json:"generic_root"`
	// hand-written methods of every type of the package, in a file that is loaded before (1) or after (2)
	// the generated one (0: none): what a second run sees next to the generated DeepCopy methods
	UserMethods int `json:"user_methods_file,omitempty"`
}

// userMethods declares, for every struct / defined type of the program, methods with one non-pointer
// parameter, one non-pointer result, and one of each.
func (p Prog) userMethods(pkg string, need map[string]bool) string {
	recv := []string{"A"}
	if p.Generic {
		recv = []string{"A[T]"}
	}
	for _, k := range []string{"Sub", "Dep", "Deep", "MyInt", "MyMap", "Wrap", "Under"} {
		if need[k] {
			recv = append(recv, k)
		}
	}
	if need["Deep"] {
		recv = append(recv, "Mid", "Leaf")
	}
	if need["Wrap"] {
		recv = append(recv, "Inner")
	}
	for _, k := range []string{"G", "UG"} {
		if need[k] {
			recv = append(recv, k+"[T]")
		}
	}
	var b strings.Builder
	b.WriteString("package " + pkg + "\n\n")
	for _, r := range recv {
		fmt.Fprintf(&b, "func (%s) Describe(names ...string) ([]string, bool) { return names, false }\n\n", r)
		fmt.Fprintf(&b, "func (%s) Weight() int { return 0 }\n\n", r)
		fmt.Fprintf(&b, "func (%s) Accept(v int) {}\n\n", r)
		fmt.Fprintf(&b, "func (%s) Scale(v float64) float64 { return v }\n\n", r)
	}
	return b.String()
}

func (p Prog) String() string {
	var fs []string
	for _, f := range p.Fields {
		fs = append(fs, fieldKinds[f].name)
	}
	return fmt.Sprintf("A{%s} pkgtag=%v interfaces=%v generic=%v user-methods-file=%d", strings.Join(fs, ", "), p.PkgTag, p.Interfaces, p.Generic, p.UserMethods)
}

func (p Prog) source(pkg string) (src, check, methods string) {
	var b strings.Builder
	b.WriteString("// Package " + pkg + " is a C17 case.\n")
	if p.PkgTag {
		b.WriteString("// +gengo:deepcopy\n")
		if p.Interfaces {
			b.WriteString("// +gengo:deepcopy:interfaces=Object\n")
		}
	}
	b.WriteString("package " + pkg + "\n\n")
	needFmt := false
	need := map[string]bool{}
	for _, f := range p.Fields {
		t := fieldKinds[f].typ
		if strings.HasPrefix(t, "fmt.") {
			needFmt = true
		}
		for k := range aux {
			if t == k || strings.HasPrefix(t, k+"[") {
				need[k] = true
			}
		}
	}
	if needFmt {
		b.WriteString("import \"fmt\"\n\n")
	}
	if p.Interfaces {
		b.WriteString("type Object interface {\n\tDeepCopyObject() Object\n}\n\n")
	}
	b.WriteString("// A is the root.\n")
	if !p.PkgTag {
		b.WriteString("// +gengo:deepcopy\n")
		if p.Interfaces {
			b.WriteString("// +gengo:deepcopy:interfaces=Object\n")
		}
	}
	if p.Generic {
		b.WriteString("type A[T any] struct {\n\tP T\n")
	} else {
		b.WriteString("type A struct {\n")
	}
	for i, f := range p.Fields {
		fmt.Fprintf(&b, "\tF%d %s\n", i, fieldKinds[f].typ)
	}
	b.WriteString("}\n\n")
	var ks []string
	for k := range need {
		ks = append(ks, k)
	}
	sort.Strings(ks)
	for _, k := range ks {
		if k == "Sub" && p.Interfaces {
			// the dependency carries the interfaces tag itself and the package uses it as that interface: it is
			// reached first as a field of A (which sorts before it) and later as a tagged type of its own
			b.WriteString(strings.Replace(aux[k], "// +gengo:deepcopy\n", "// +gengo:deepcopy\n// +gengo:deepcopy:interfaces=Object\n", 1) + "\nvar _ Object = (*Sub)(nil)\n\n")
			continue
		}
		b.WriteString(aux[k] + "\n")
	}
	// check file
	var cb strings.Builder
	cb.WriteString("package " + pkg + "\n\nimport \"" + modPath + "/verifkit\"\n\nfunc VerifRun() (checks int, fails []string) {\n")
	root := "A"
	if p.Generic {
		root = "A[string]"
	}
	fmt.Fprintf(&cb, "\tverifkit.CheckDeepCopy(&checks, &fails, %q, new(%s))\n", root, root)
	for _, k := range ks {
		switch k {
		case "G":
			cb.WriteString("\tverifkit.CheckDeepCopy(&checks, &fails, \"G[int]\", new(G[int]))\n")
		case "UG":
			cb.WriteString("\tverifkit.CheckDeepCopyIfAny(&checks, &fails, \"UG[string]\", new(UG[string]))\n")
		case "Copier":
			// hand-built values: the field holds a typed nil pointer / a populated implementation
			for i, f := range p.Fields {
				if fieldKinds[f].typ == "Copier" {
					fmt.Fprintf(&cb, "\t{\n\t\tv := new(%s)\n\t\tv.F%d = (*CopierImpl)(nil)\n\t\tverifkit.CheckEqualCopy(&checks, &fails, \"%s with a typed nil pointer in field F%d\", v)\n\t\tw := new(%s)\n\t\tw.F%d = &CopierImpl{N: 1, S: []int{1, 2}}\n\t\tverifkit.CheckEqualCopy(&checks, &fails, \"%s with a populated implementation in field F%d\", w)\n\t}\n", root, i, root, i, root, i, root, i)
				}
			}
		case "Iface":
			// an interface type has no DeepCopy of its own
		case "Deep":
			cb.WriteString("\tverifkit.CheckDeepCopy(&checks, &fails, \"Deep\", new(Deep))\n\tverifkit.CheckDeepCopyIfAny(&checks, &fails, \"Mid\", new(Mid))\n")
		case "Wrap":
			cb.WriteString("\tverifkit.CheckDeepCopyIfAny(&checks, &fails, \"Wrap\", new(Wrap))\n\tverifkit.CheckDeepCopyIfAny(&checks, &fails, \"Inner\", new(Inner))\n")
		case "Sub":
			fmt.Fprintf(&cb, "\tverifkit.CheckDeepCopy(&checks, &fails, %q, new(%s))\n", k, k)
		default:
			// types without a tag of their own, reached as dependencies
			fmt.Fprintf(&cb, "\tverifkit.CheckDeepCopyIfAny(&checks, &fails, %q, new(%s))\n", k, k)
		}
	}
	cb.WriteString("\treturn\n}\n")
	if p.UserMethods != 0 {
		methods = p.userMethods(pkg, need)
	}
	return b.String(), cb.String(), methods
}

type Case struct {
	Prog Prog `json:"program"`
}

func genFileOf(t pipe.Tree, dir string) string {
	return t[dir+"/zz_generated.deepcopy.go"]
}

// generate runs the deepcopy generator over the given package dirs; a failing
// Execute is bisected so that one bad package does not hide the others.
func generate(c *core.Ctx, root string, dirs []string, fail func(dir, msg string)) (ok []string) {
	if len(dirs) == 0 {
		return nil
	}
	var eps []string
	for _, d := range dirs {
		eps = append(eps, "./"+d)
	}
	o := pipe.Exec(pipe.Spec{Dir: root, Entrypoints: eps, Real: []string{"deepcopy"}})
	c.Trans(1)
	if o.OK() {
		return dirs
	}
	if len(dirs) == 1 {
		fail(dirs[0], fmt.Sprintf("load=%q err=%q panic=%q", o.LoadErr, o.Err, o.Panic))
		return nil
	}
	h := len(dirs) / 2
	return append(generate(c, root, dirs[:h], fail), generate(c, root, dirs[h:], fail)...)
}

const earlyDir = "p/a0early"

func checkProgs(c *core.Ctx, progs []Prog) {
	root := pipe.TempDir("c17")
	defer os.RemoveAll(root)
	t := pipe.Tree{"go.mod": pipe.GoMod(modPath, "1.24"), "verifkit/kit.go": gocheck.VerifKit}
	checks := map[string]string{}
	var dirs []string
	byDir := map[string]Prog{}
	for i, p := range progs {
		name := fmt.Sprintf("k%05d", i)
		src, chk, methods := p.source(name)
		t["p/"+name+"/types.go"] = src
		// a file that sorts before types.go with FUNCTION-LOCAL types named like the package-level ones (other fields)
		t["p/"+name+"/a_local.go"] = "package " + name + "\n\nfunc localTwins() int {\n\ttype A struct{ Local []int }\n\ttype Sub struct{ Other map[string]int }\n\ttype Dep struct{ P *int }\n\ttype Wrap struct{ Q []string }\n\ttype MyMap []int\n\treturn len(A{}.Local) + len(Sub{}.Other) + len(Wrap{}.Q) + len(MyMap{}) + func() int { _ = Dep{}; return 0 }()\n}\n"
		switch p.UserMethods {
		case 1:
			t["p/"+name+"/methods.go"] = methods
		case 2:
			t["p/"+name+"/zzz_methods.go"] = methods // sorts after zz_generated.deepcopy.go
		}
		checks["p/"+name+"/verif_check.go"] = chk
		dirs = append(dirs, "p/"+name)
		byDir["p/"+name] = p
	}
	// context: a package that is generated EARLIER in the same run (its path sorts first) and holds, by value,
	// the exported struct / defined types of every judged package; it is not judged itself
	{
		var imp, fld strings.Builder
		n := 0
		for i, p := range progs {
			name := fmt.Sprintf("k%05d", i)
			for _, f := range p.Fields {
				var ft string
				switch fieldKinds[f].typ {
				case "Sub", "Dep", "Deep", "MyInt", "MyMap", "Wrap", "Under":
					ft = name + "." + fieldKinds[f].typ
				case "G[int]", "UG[string]":
					ft = name + "." + fieldKinds[f].typ
				default:
					continue
				}
				fmt.Fprintf(&imp, "\t%q\n", modPath+"/p/"+name)
				fmt.Fprintf(&fld, "\tF%d %s\n", n, ft)
				n++
				break
			}
		}
		if n > 0 {
			t[earlyDir+"/early.go"] = "// Package early refers to the other packages of the run.\npackage early\n\nimport (\n" + imp.String() + ")\n\n// E holds types of the packages generated after this one.\n// +gengo:deepcopy\ntype E struct {\n" + fld.String() + "}\n"
			dirs = append([]string{earlyDir}, dirs...)
		}
	}
	if err := pipe.WriteTree(root, t); err != nil {
		c.Internal("%v", err)
		return
	}
	failed := map[string]bool{}
	report := func(class string) func(dir, msg string) {
		return func(dir, msg string) {
			if dir == earlyDir {
				return // context only
			}
			if !failed[dir] {
				failed[dir] = true
				p := byDir[dir]
				c.Fail(classify(p, msg, class), Case{p}, "%s: %s", p, msg)
			}
		}
	}
	// first generation
	ok1 := generate(c, root, dirs, report("generate"))
	t1, _ := pipe.ReadTree(root)
	// second generation on the result of the first
	// (built with the map-order seam the second run iterates every map of the library - generators
	// included - in DESCENDING key order, the first one in ascending order)
	seamctl.Set(1, nil)
	ok2 := generate(c, root, ok1, report("regenerate"))
	seamctl.Set(0, nil)
	t2, _ := pipe.ReadTree(root)
	dirs = without(dirs, earlyDir)
	ok2 = without(ok2, earlyDir)
	// (whether the context package compiles is not judged: its generated file is removed before the build)
	_ = os.Remove(root + "/" + earlyDir + "/zz_generated.deepcopy.go")
	for _, d := range ok2 {
		if genFileOf(t1, d) == "" {
			report("generate")(d, "the generator produced no file")
			continue
		}
		if genFileOf(t1, d) != genFileOf(t2, d) {
			// compile/run the SECOND output nevertheless: it is what later runs keep producing
			p := byDir[d]
			c.Fail(classify(p, "", "unstable"), Case{p}, "%s: the generated file differs between the first and the second run\n--- first ---\n%s--- second ---\n%s", p, genFileOf(t1, d), genFileOf(t2, d))
		}
	}
	// restore the FIRST output for compilation (a user compiles what the first run wrote)
	for _, d := range ok2 {
		_ = os.WriteFile(root+"/"+d+"/zz_generated.deepcopy.go", []byte(genFileOf(t1, d)), 0o644)
	}
	if err := pipe.WriteTree(root, pipe.Tree(checks)); err != nil {
		c.Internal("%v", err)
		return
	}
	for d := range failed {
		os.Remove(root + "/" + d + "/verif_check.go")
	}
	berr, err := gocheck.BuildErrors(root, "./p/...")
	if err != nil {
		c.Internal("%v", err)
		return
	}
	var runnable []string
	for _, d := range ok2 {
		if failed[d] && genFileOf(t1, d) == "" {
			continue
		}
		if msg, bad := berr[modPath+"/"+d]; bad {
			p := byDir[d]
			if !failed[d] {
				failed[d] = true
				c.Fail(classify(p, msg, "compile"), Case{p}, "%s: the generated code does not compile with the package:\n%s--- generated ---\n%s", p, msg, genFileOf(t1, d))
			}
			continue
		}
		runnable = append(runnable, modPath+"/"+d)
	}
	reps, err := gocheck.RunMain(root, modPath, runnable)
	if err != nil {
		c.Internal("%v", err)
		return
	}
	c.Trace(1)
	for _, r := range reps {
		d := strings.TrimPrefix(r.Pkg, modPath+"/")
		p := byDir[d]
		c.Trans(r.Checks)
		if len(r.Fails) > 0 && !failed[d] {
			failed[d] = true
			c.Fail(classify(p, strings.Join(r.Fails, "; "), "run"), Case{p}, "%s: %s\n--- generated ---\n%s", p, strings.Join(r.Fails, "; "), genFileOf(t1, d))
		}
	}
	for _, d := range dirs {
		p := byDir[d]
		c.Eval(1)
		c.State(fmt.Sprintf("%v|%v|%v|%v", len(p.Fields), p.PkgTag, p.Interfaces, failed[d]))
		if len(p.Fields) >= 2 {
			c.Nontrivial(p.String())
		}
	}
}

func without(xs []string, x string) []string {
	var out []string
	for _, v := range xs {
		if v != x {
			out = append(out, v)
		}
	}
	return out
}

// classify names the recorded defect class that explains a failure (exactly).
func classify(p Prog, msg, phase string) string {
	return ""
}

func run(c *core.Ctx) {
	var kn []string
	for _, k := range fieldKinds {
		kn = append(kn, k.name)
	}
	c.Bound("field_kinds", kn)
	maxFields := 2
	c.Bound("max_fields_of_root", maxFields)
	var all []Prog
	for _, pkgTag := range []bool{false, true} {
		for _, ifaces := range []bool{false, true} {
			for _, generic := range []bool{false, true} {
				if !c.Thorough() && ifaces && generic {
					continue
				}
				var rec func(cur []int)
				rec = func(cur []int) {
					if len(cur) > 0 {
						all = append(all, Prog{Fields: append([]int{}, cur...), PkgTag: pkgTag, Interfaces: ifaces, Generic: generic})
					}
					if len(cur) == maxFields {
						return
					}
					for f := range fieldKinds {
						if !c.Thorough() && len(cur) == 1 && (ifaces || generic) && f > 8 {
							continue
						}
						rec(append(cur, f))
					}
				}
				rec(nil)
			}
		}
	}
	if !c.Thorough() {
		// three fields over the kinds that are same-package types (generated as dependencies, in field order,
		// possibly reached twice)
		deps := []int{4, 5, 6, 7, 8, 16, 17}
		for _, a := range deps {
			for _, b := range deps {
				for _, d := range deps {
					all = append(all, Prog{Fields: []int{a, b, d}, PkgTag: false})
				}
			}
		}
		c.Bound("three_field_lists_over_same_package_kinds", []string{"tagged-struct", "untagged-dependency-struct", "nested-3-levels", "defined-scalar", "defined-map", "same-package-interface"})
	}
	if c.Thorough() {
		reduced := []int{2, 4, 5, 6, 7, 8, 9, 12, 16, 17, 19}
		for _, a := range reduced {
			for _, b := range reduced {
				for _, d := range reduced {
					all = append(all, Prog{Fields: []int{a, b, d}, PkgTag: false}, Prog{Fields: []int{a, b, d}, PkgTag: true, Interfaces: true})
				}
			}
		}
		c.Bound("three_field_lists_over_kinds", []string{"[]int", "tagged-struct", "untagged-dependency-struct", "nested-3-levels", "defined-scalar", "defined-map", "error", "instantiated-generic", "same-package-interface", "plain-struct-wrapping-a-struct-with-containers"})
	}
	// hand-written methods next to the generated ones (the second run loads both)
	for _, p := range append([]Prog{}, all...) {
		if len(p.Fields) > 2 || (!c.Thorough() && (p.PkgTag || p.Interfaces)) {
			continue
		}
		for um := 1; um <= 2; um++ {
			p.UserMethods = um
			all = append(all, p)
		}
	}
	c.Bound("user_methods_files", []string{"none", "methods.go (loaded before the generated file)", "zzz_methods.go (loaded after it)"})
	c.Bound("programs", len(all))
	const batch = 300
	for i := 0; i < len(all); i += batch {
		if !c.Next() {
			continue
		}
		checkProgs(c, all[i:min(i+batch, len(all))])
	}
	c.Sample(Prog{Fields: []int{4, 8}, PkgTag: false}.String())
}

func replay(c *core.Ctx, raw json.RawMessage) {
	var cs Case
	if err := json.Unmarshal(raw, &cs); err != nil {
		c.Internal("bad case: %v", err)
		return
	}
	checkProgs(c, []Prog{cs.Prog})
}

func init() {
	core.Register(&core.Prop{
		ID: "C17", Level: "model_checking", Run: run, Replay: replay, Shards: 4,
		Rule:        "(seam build: the second generation runs under descending map order in library and generator) every root struct with 1..2 fields (ordered; plus all 3-field lists over the same-package kinds) over 19 field kinds (scalars, string, slices/maps of scalars, tagged same-package struct, untagged dependency struct, 3-level nesting through untagged dependencies, defined scalar, defined map, error, any, named interface, field of an instantiated generic struct) x enabling tag on package vs on type x gengo:deepcopy:interfaces on/off x generic root (bare type-parameter field) x hand-written methods (one non-pointer parameter / result) on every type in a file loaded before / after the generated one; all packages of a batch generated in one run together with an EARLIER package that holds their exported types by value; each package generated TWICE by the real generator through the real pipeline (outputs compared), compiled with the package, and exercised by a harness-written check (nil, DeepEqual, mutate every reachable slice/map of the copy then compare the original with a snapshot, DeepCopyInto). Non-trivial = 2 fields; states = distinct (field count, tag placement, interfaces, failed?)",
		Assumptions: []string{"pointer fields, slices of structs and slices over type parameters are outside the stated domain"},
	})
}
