// Package c10: value literals evaluate back to the value they were rendered
// from. The harness owns a value model that prints every value as trusted Go
// source; a generated program A (compiled against the gengo under test)
// renders each value through snippet.Value with a raw namer for the target
// package; every rendered literal is type-checked as `var got T = <text>` inside
// the target package, and a generated program B compares the surviving literals
// with the originals at run time (nil == empty). Values that differ only in map
// insertion order must render to identical text.
package c10

import (
	"bytes"
	"encoding/json"
	"fmt"
	"go/parser"
	"os"
	"os/exec"
	"regexp"
	"sort"
	"strconv"
	"strings"
	"unicode/utf8"

	"golang.org/x/tools/go/packages"
	"verif/mc/core"
	"verif/mc/gocheck"
	"verif/mc/pipe"
	"verif/mc/seamctl"
)

const modPath = "x.io/test"

// Val is one case of the value model: a type and a value, both as trusted Go
// source in which "$L." stands for the target package qualifier.
type Val struct {
	Type  string `json:"type"`
	Expr  string `json:"value"`
	Group string `json:"same_value_group,omitempty"` // cases of one group denote the same value (map insertion orders)
}

type scalar struct {
	typ  string
	vals []string
}

var scalars = []scalar{
	{"bool", []string{"false", "true"}},
	{"int", []string{"0", "1", "-1", "9223372036854775807", "-9223372036854775808"}},
	{"int8", []string{"0", "127", "-128"}},
	{"int16", []string{"32767", "-32768"}},
	{"int32", []string{"0", "2147483647", "-2147483648", "'a'", "'\\''", "'\\n'", "0x10FFFF", "'é'", "'\\\\'"}},
	{"int64", []string{"9223372036854775807", "-9223372036854775808", "7"}},
	{"uint", []string{"0", "18446744073709551615"}},
	{"uint8", []string{"0", "255", "'a'"}},
	{"uint16", []string{"65535"}},
	{"uint32", []string{"4294967295"}},
	{"uint64", []string{"18446744073709551615", "1"}},
	{"uintptr", []string{"0", "1", "4096"}},
	{"float32", []string{"0", "1", "1.5", "0.1", "3.4028234663852886e+38", "1.401298464324817e-45", "-2.25"}},
	{"float64", []string{"0", "1", "1.5", "0.1", "1e300", "5e-324", "1.7976931348623157e+308", "-0.000001", "123456789.125"}},
	{"string", []string{`""`, `"a"`, `"\""`, `"\n"`, "\"`\"", `"\xff"`, `"é"`, `"a\x00b"`, `"%v @x'"`}},
	{"vt.MyInt", []string{"0", "5", "-3"}},
	{"vt.Level", []string{"0", "1", "5"}},
	{"vt.Code", []string{"0", "404", "-1"}},
	{"vt.Flags", []string{"0", "200"}},
	{"vt.Label", []string{`""`, `"x"`}},
	{"vt.Ratio", []string{"0", "0.25", "1.5"}},
	{"vt.Switch", []string{"true", "false"}},
	{"vt.Octal", []string{"0", "420", "8"}},
	{"vt.MyString", []string{`""`, `"x"`}},
	{"vt.MyBool", []string{"true", "false"}},
	{"vt.MyFloat", []string{"1.5"}},
	{"vt.MyUint8", []string{"200"}},
	{"$L.Local", []string{"3", "0"}},
	{"vt2.Other", []string{"9"}},
	{"cvt.C", []string{"4"}},
}

func conv(t, v string) string { return t + "(" + v + ")" }

var specialChars = []string{"a", "\"", "\\", "`", "\n", "\r", "\t", "\x00", "\xff", "é", "\u2028", "\ufeff", "\u00a0", "'", "\x7f", "\U0001F600"}

// specialStrings lists every non-empty string of at most n characters over specialChars.
func specialStrings(n int) []string {
	out := []string{}
	level := []string{""}
	for i := 0; i < n; i++ {
		var next []string
		for _, p := range level {
			for _, ch := range specialChars {
				next = append(next, p+ch)
			}
		}
		out = append(out, next...)
		level = next
	}
	return out
}

// elem types for containers with two sample values each (already converted)
type elem struct {
	typ    string
	a, b   string
	zero   string
	isStru bool
}

var elems = []elem{
	{"int", "int(1)", "int(-2)", "int(0)", false},
	{"string", `"x"`, `"y\n"`, `""`, false},
	{"bool", "true", "false", "false", false},
	{"float64", "float64(1.5)", "float64(0.1)", "float64(0)", false},
	{"uint8", "uint8(7)", "uint8(255)", "uint8(0)", false},
	{"vt.MyInt", "vt.MyInt(5)", "vt.MyInt(6)", "vt.MyInt(0)", false},
	{"vt.MyString", `vt.MyString("k")`, `vt.MyString("l")`, `vt.MyString("")`, false},
	{"vt.Octal", "vt.Octal(420)", "vt.Octal(8)", "vt.Octal(0)", false},
	{"vt.MyUint8", "vt.MyUint8(7)", "vt.MyUint8(255)", "vt.MyUint8(0)", false},
	{"vt.Inner", "vt.Inner{X: 1, Y: \"y\"}", "vt.Inner{X: 2}", "vt.Inner{}", true},
	{"$L.LocalStruct", "$L.LocalStruct{A: 1}", "$L.LocalStruct{B: \"b\"}", "$L.LocalStruct{}", true},
}

type key struct{ typ, a, b string }

var keys = []key{
	{"string", `"a"`, `"b"`}, {"int", "2", "10"}, {"bool", "false", "true"}, {"vt.MyString", `"k1"`, `"k2"`},
	{"[2]int", "[2]int{1, 2}", "[2]int{1, 3}"}, {"vt.Key", "vt.Key{A: 1, B: \"x\"}", "vt.Key{A: 2}"},
}

func values(thorough bool) []Val {
	var out []Val
	add := func(t, e string) { out = append(out, Val{Type: t, Expr: e}) }
	// scalars and one-level pointers to them
	for _, s := range scalars {
		for _, v := range s.vals {
			add(s.typ, conv(s.typ, v))
			add("*"+s.typ, "ptr("+conv(s.typ, v)+")")
		}
		add("*"+s.typ, "(*"+s.typ+")(nil)")
	}
	// every string of <=2 (3) characters over the characters a literal syntax has to care about
	// (a renderer may switch between interpreted and raw literals on any of them)
	maxSpecial := 2
	if thorough {
		maxSpecial = 3
	}
	for _, s := range specialStrings(maxSpecial) {
		add("string", "string("+strconv.Quote(s)+")")
		if len([]rune(s)) <= 1 || !utf8.ValidString(s) {
			add("vt.MyString", "vt.MyString("+strconv.Quote(s)+")")
			add("map[string]string", "map[string]string{"+strconv.Quote(s)+": "+strconv.Quote(s)+"}")
			add("*string", "ptr(string("+strconv.Quote(s)+"))")
		}
	}
	// containers of depth 1
	for _, e := range elems {
		add("[]"+e.typ, "[]"+e.typ+"(nil)")
		add("[]"+e.typ, "[]"+e.typ+"{}")
		add("[]"+e.typ, "[]"+e.typ+"{"+e.a+"}")
		add("[]"+e.typ, "[]"+e.typ+"{"+e.a+", "+e.b+", "+e.zero+"}")
		add("[2]"+e.typ, "[2]"+e.typ+"{}")
		add("[2]"+e.typ, "[2]"+e.typ+"{"+e.a+", "+e.b+"}")
		add("*"+e.typ, "ptr("+e.zero+")")
		add("*"+e.typ, "ptr("+e.a+")")
		add("*[]"+e.typ, "ptr([]"+e.typ+"{"+e.a+"})")
		if e.isStru {
			add(e.typ, e.zero)
			add(e.typ, e.a)
			add(e.typ, e.b)
		}
		for _, k := range keys {
			mt := "map[" + k.typ + "]" + e.typ
			add(mt, mt+"(nil)")
			add(mt, mt+"{}")
			add(mt, mt+"{"+k.a+": "+e.a+"}")
			g := mt + "/" + e.a
			out = append(out, Val{Type: mt, Expr: mt + "{" + k.a + ": " + e.a + ", " + k.b + ": " + e.zero + "}", Group: g})
			out = append(out, Val{Type: mt, Expr: mt + "{" + k.b + ": " + e.zero + ", " + k.a + ": " + e.a + "}", Group: g})
		}
	}
	// structs with fields of every kind, zero and non-zero members
	structs := []string{
		"vt.S{}",
		"vt.S{A: 1, B: \"b\", C: []int{1, 2}, D: map[string]int{\"k\": 1}}",
		"vt.S{E: ptr(0)}", "vt.S{E: ptr(5)}",
		"vt.S{F: vt.Inner{X: 1}}", "vt.S{F: vt.Inner{}}",
		"vt.S{G: &vt.Inner{}}", "vt.S{G: &vt.Inner{Y: \"y\"}}",
		"vt.S{H: vt.MyInt(4), I: vt.MyString(\"i\")}",
		"vt.S{J: []vt.Inner{{}, {X: 1}}}", "vt.S{K: map[string]vt.Inner{\"a\": {}}}", "vt.S{K: map[string]vt.Inner{\"a\": {X: 1}, \"b\": {}}}",
		"vt.S{L: [2]vt.Inner{{}, {X: 2}}}", "vt.S{M: ptr(\"s\")}", "vt.S{N: ptr(vt.MyInt(3))}", "vt.S{O: true, P: 1.5}",
		"vt.S{C: []int{}, D: map[string]int{}}",
	}
	for _, s := range structs {
		add("vt.S", s)
		add("*vt.S", "ptr("+s+")")
		add("[]vt.S", "[]vt.S{"+s+"}")
		add("map[string]vt.S", "map[string]vt.S{\"k\": "+s+"}")
	}
	// byte containers whose bytes happen to be printable text (file magics, two-letter codes, a short message)
	for _, bt := range []string{"uint8", "vt.MyUint8"} {
		add("[]"+bt, "[]"+bt+"{104, 101, 108, 108, 111}")
		add("[]"+bt, "[]"+bt+"{97, 10, 9, 98}")
		add("[4]"+bt, "[4]"+bt+"{71, 73, 70, 56}")
		add("[2]"+bt, "[2]"+bt+"{97, 98}")
		add("*[]"+bt, "ptr([]"+bt+"{104, 105})")
		add("*[2]"+bt, "ptr([2]"+bt+"{111, 107})")
		add("map[[2]"+bt+"]int", "map[[2]"+bt+"]int{{97, 98}: 1, {99, 100}: 2}")
		add("[][]"+bt, "[][]"+bt+"{{80, 78, 71}, {}, nil}")
		add("map[string][]"+bt, "map[string][]"+bt+"{\"k\": {111, 107}}")
	}
	add("vt.Emb", "vt.Emb{}")
	add("vt.Emb", "vt.Emb{Inner: vt.Inner{X: 1}, Z: 2}")
	add("vt.Emb", "vt.Emb{Z: 2}")
	add("struct {\n\tA int\n\tB string\n}", "struct {\n\tA int\n\tB string\n}{A: 1, B: \"x\"}")
	add("struct {\n\tA int\n\tB string\n}", "struct {\n\tA int\n\tB string\n}{}")
	add("[]struct{ A int }", "[]struct{ A int }{{A: 1}, {}}")
	add("vt2.Pair", "vt2.Pair{Left: vt.Inner{X: 1}, Right: vt2.Other(2)}")
	add("cvt.Box", "cvt.Box{In: vt.Inner{X: 1}, C: cvt.C(2)}")
	add("map[cvt.C]vt.MyInt", "map[cvt.C]vt.MyInt{cvt.C(1): vt.MyInt(2)}")
	add("[]cvt.Box", "[]cvt.Box{{}, {C: 3}}")
	add("vt.Display", "vt.Display{L: 1, C: 404, F: 200, N: \"x\", R: 0.25, S: true, O: 420}")
	add("vt.Display", "vt.Display{PL: ptr(vt.Level(2)), LS: []vt.Level{0, 1, 2}, M: map[vt.Level]vt.Octal{1: 420, 2: 8}}")
	add("map[vt.Code]vt.Label", "map[vt.Code]vt.Label{404: \"nf\", -1: \"\"}")
	// int32 / rune values around every boundary a rune printer may care about: all of U+0000..U+02FF, the
	// surrogate range and its neighbours, U+FFF0..U+1000F, the end of Unicode, negative and extreme values
	{
		var vs []string
		addRange := func(lo, hi int64) {
			for v := lo; v <= hi; v++ {
				vs = append(vs, strconv.FormatInt(v, 10))
			}
		}
		addRange(0, 0x2FF)
		addRange(0xD7F0, 0xE010)
		addRange(0xFFF0, 0x1000F)
		addRange(0x10FFF0, 0x110010)
		addRange(-3, -1)
		vs = append(vs, "2147483647", "-2147483648")
		add("[]int32", "[]int32{"+strings.Join(vs, ", ")+"}")
		add("[]rune", "[]rune{"+strings.Join(vs, ", ")+"}")
		add("map[rune]string", "map[rune]string{0xD800: \"a\", 0xDFFF: \"b\", 0xFFFD: \"c\", 0x41: \"d\", -1: \"e\"}")
		add("map[string]rune", "map[string]rune{\"hi\": 0xD800, \"lo\": 0xDC00, \"r\": 0xFFFD}")
		add("*int32", "ptr(int32(0xD800))")
		add("[3]rune", "[3]rune{0xDBFF, 0xDC00, 0x10FFFF}")
	}
	// deep nesting: zero-valued structs as slice elements / map values / pointees / array elements at every
	// depth from 2 to 12 below the rendered root (wrapped alternately in slices, maps, arrays and a pointer)
	{
		typ := "vt.Mid"
		expr := "vt.Mid{Leaves: []vt.Leaf{{N: 1}, {}}, ByName: map[string]vt.Leaf{\"z\": {}, \"a\": {N: 2}}, P: &vt.Leaf{}, Arr: [2]vt.Leaf{{}, {N: 3}}}"
		add(typ, expr)
		for d := 1; d <= 10; d++ {
			switch d % 3 {
			case 1:
				expr = "[]" + typ + "{" + expr + "}"
				typ = "[]" + typ
			case 2:
				expr = "map[string]" + typ + "{\"k\": " + expr + "}"
				typ = "map[string]" + typ
			default:
				expr = "[1]" + typ + "{" + expr + "}"
				typ = "[1]" + typ
			}
			add(typ, expr)
			add("*"+typ, "ptr("+expr+")")
		}
	}
	// one value holding types with the same package name AND type name from two different packages
	add("cvt.Twin", "cvt.Twin{Mine: cvt.Inner{Y: 1}, Theirs: vt.Inner{X: 2}, N: cvt.MyInt(3), M: vt.MyInt(4)}")
	add("cvt.Twin", "cvt.Twin{Theirs: vt.Inner{X: 2}, Mine: cvt.Inner{Y: 1}, P: &cvt.Inner{Y: 5}, Q: &vt.Inner{X: 6}}")
	add("cvt.Twin", "cvt.Twin{S: []cvt.Inner{{Y: 1}}, T: []vt.Inner{{X: 2}}, K: map[cvt.MyInt]vt.MyInt{1: 2}}")
	add("cvt.Twin", "cvt.Twin{T: []vt.Inner{{X: 2}}, S: []cvt.Inner{{Y: 1}}, Q: &vt.Inner{X: 6}, P: &cvt.Inner{Y: 5}}")
	add("map[vt.MyInt]cvt.MyInt", "map[vt.MyInt]cvt.MyInt{vt.MyInt(1): cvt.MyInt(2)}")
	add("map[cvt.MyInt]vt.Inner", "map[cvt.MyInt]vt.Inner{cvt.MyInt(1): {X: 2}}")
	add("[2][2]int", "[2][2]int{{1, 2}, {3, 4}}")
	add("map[vt.Key][]vt.Inner", "map[vt.Key][]vt.Inner{vt.Key{A: 1}: {{X: 1}, {}}}")
	add("[]vt.Emb", "[]vt.Emb{{Inner: vt.Inner{Y: \"e\"}}, {}}")
	add("vt.Deep", "vt.Deep{P: &vt.S{G: &vt.Inner{X: 1}, E: ptr(2)}, L: []*vt.Inner{{X: 1}, nil, {}}, M: map[string]*vt.S{\"a\": {A: 1}, \"z\": nil}}")
	add("vt.Deep", "vt.Deep{}")
	add("*vt.Deep", "ptr(vt.Deep{L: []*vt.Inner{}})")
	// ONE pointer stored at several places of one value (aliasing inside the input is not part of the value:
	// every place must render what it points to)
	for _, e := range elems {
		pt := "*" + e.typ
		add("[]"+pt, "func(p "+pt+") []"+pt+" { return []"+pt+"{p, p, nil, p} }(ptr("+e.a+"))")
		add("map[string]"+pt, "func(p "+pt+") map[string]"+pt+" { return map[string]"+pt+"{\"a\": p, \"b\": p} }(ptr("+e.b+"))")
		add("[2]"+pt, "func(p "+pt+") [2]"+pt+" { return [2]"+pt+"{p, p} }(ptr("+e.a+"))")
		add("[]["+"]"+pt, "func(p "+pt+") [][]"+pt+" { return [][]"+pt+"{{p}, {p, p}} }(ptr("+e.zero+"))")
	}
	add("vt.Deep", "func(p *vt.Inner, q *int) vt.Deep { return vt.Deep{P: &vt.S{G: p, E: q}, L: []*vt.Inner{p, p}, M: map[string]*vt.S{\"a\": {G: p, E: q}, \"b\": {E: q}}} }(&vt.Inner{X: 1}, ptr(2))")
	// depth 2 containers
	for _, e := range elems {
		if !thorough && e.typ != "int" && e.typ != "vt.Inner" && e.typ != "vt.MyString" {
			continue
		}
		add("[][]"+e.typ, "[][]"+e.typ+"{{"+e.a+"}, nil, {}}")
		add("map[string][]"+e.typ, "map[string][]"+e.typ+"{\"a\": {"+e.a+", "+e.b+"}, \"b\": nil}")
		add("[]map[string]"+e.typ, "[]map[string]"+e.typ+"{{\"a\": "+e.a+"}, {}}")
		add("map[string]map[int]"+e.typ, "map[string]map[int]"+e.typ+"{\"a\": {1: "+e.a+", 2: "+e.zero+"}}")
		add("[]*"+e.typ, "[]*"+e.typ+"{ptr("+e.a+"), nil, ptr("+e.zero+")}")
		add("map[string]*"+e.typ, "map[string]*"+e.typ+"{\"a\": ptr("+e.b+"), \"n\": nil}")
		add("[2][]"+e.typ, "[2][]"+e.typ+"{{"+e.b+"}}")
	}
	return out
}

const vtSource = `package vt

import "fmt"

type (
	MyInt    int
	MyString string
	MyBool   bool
	MyFloat  float64
	MyUint8  uint8
)

// named scalars whose DISPLAY text is not their Go literal (String / Error / Format / GoString methods)
type (
	Level  int
	Code   int64
	Flags  uint8
	Label  string
	Ratio  float64
	Switch bool
	Octal  uint16
)

func (l Level) String() string  { return [...]string{"low", "mid", "high"}[l%3] }
func (c Code) Error() string    { return fmt.Sprintf("code %d", int64(c)) }
func (f Flags) Format(s fmt.State, verb rune) { fmt.Fprint(s, "flags!") }
func (l Label) String() string  { return "<" + string(l) + ">" }
func (r Ratio) String() string  { return fmt.Sprintf("%.0f%%", float64(r)*100) }
func (s Switch) String() string { if s { return "on" }; return "off" }
func (o Octal) String() string  { return fmt.Sprintf("%o", uint16(o)) }
func (o Octal) GoString() string { return "octal" }

// nesting chain for deep values
type Leaf struct{ N int }

type Mid struct {
	Leaves []Leaf
	ByName map[string]Leaf
	P      *Leaf
	Arr    [2]Leaf
}

type Display struct {
	L  Level
	C  Code
	F  Flags
	N  Label
	R  Ratio
	S  Switch
	O  Octal
	PL *Level
	LS []Level
	M  map[Level]Octal
}

type Inner struct {
	X int
	Y string
}

type Key struct {
	A int
	B string
}

type S struct {
	A int
	B string
	C []int
	D map[string]int
	E *int
	F Inner
	G *Inner
	H MyInt
	I MyString
	J []Inner
	K map[string]Inner
	L [2]Inner
	M *string
	N *MyInt
	O bool
	P float64
}

type Emb struct {
	Inner
	Z int
}

type Deep struct {
	P *S
	L []*Inner
	M map[string]*S
}
`

const vt2Source = `package vt2

import "x.io/test/vt"

type Other int

type Pair struct {
	Left  vt.Inner
	Right Other
}
`

const cvtSource = `package vt

import real "x.io/test/vt"

type C int

type Box struct {
	In real.Inner
	C  C
}

// Inner and MyInt have the same names as types of the other package called vt.
type Inner struct{ Y int }

type MyInt int

type Twin struct {
	Mine   Inner
	Theirs real.Inner
	N      MyInt
	M      real.MyInt
	P      *Inner
	Q      *real.Inner
	S      []Inner
	T      []real.Inner
	K      map[MyInt]real.MyInt
}
`

const tgtSource = `package tgt

type Local int

type LocalStruct struct {
	A int
	B string
}

func ptr[T any](v T) *T { return &v }
`

func seamImport() string {
	if seamctl.Available() {
		return "\t\"github.com/octohelm/gengo/pkg/zzseam\"\n"
	}
	return ""
}

func q(expr, qual string) string { return strings.ReplaceAll(expr, "$L.", qual) }

type rendered struct {
	Texts   []string          `json:"texts"`
	Again   []string          `json:"again"`
	Panics  []string          `json:"panics"`
	Imports map[string]string `json:"imports"`
}

type Case struct {
	Val Val `json:"value"`
}

func goRun(dir string, args ...string) ([]byte, error) {
	cmd := exec.Command("go", append([]string{"run", "-trimpath"}, args...)...)
	cmd.Dir = dir
	cmd.Env = append(os.Environ(), "GOFLAGS=-mod=mod", "GOPROXY=off", "GOTOOLCHAIN=local", "GOWORK=off")
	var so, se bytes.Buffer
	cmd.Stdout, cmd.Stderr = &so, &se
	if err := cmd.Run(); err != nil {
		s := se.String()
		if len(s) > 2500 {
			s = s[len(s)-2500:]
		}
		return nil, fmt.Errorf("%v: %s", err, s)
	}
	return so.Bytes(), nil
}

var caseMarker = regexp.MustCompile(`^//case:(\d+)$`)

func checkVals(c *core.Ctx, vals []Val) {
	dir := pipe.TempDir("c10")
	defer os.RemoveAll(dir)
	gomod := pipe.GoMod(modPath, "1.24.2") + "\nrequire github.com/octohelm/gengo v0.0.0\n\nreplace github.com/octohelm/gengo => " + core.RepoDir() + "\n"
	sum, _ := os.ReadFile(core.RepoDir() + "/go.sum")
	// program A
	var a strings.Builder
	a.WriteString("package main\n\nimport (\n\t\"bytes\"\n\t\"encoding/json\"\n\t\"fmt\"\n\t\"os\"\n\n\t\"github.com/octohelm/gengo/pkg/gengo\"\n\t\"github.com/octohelm/gengo/pkg/gengo/snippet\"\n\t\"github.com/octohelm/gengo/pkg/namer\"\n\t\"" + modPath + "/tgt\"\n\t\"" + modPath + "/vt\"\n\t\"" + modPath + "/vt2\"\n\tcvt \"" + modPath + "/clash/vt\"\n" + seamImport() + ")\n\nvar _ tgt.Local\nvar _ vt.MyInt\nvar _ vt2.Other\nvar _ cvt.C\n\nfunc ptr[T any](v T) *T { return &v }\n\nvar values = []any{\n")
	for _, v := range vals {
		a.WriteString("\t" + q(v.Expr, "tgt.") + ",\n")
	}
	a.WriteString(`}

type session struct {
	Target  string            ` + "`json:\"target\"`" + `
	Texts   []string          ` + "`json:\"texts\"`" + `
	Again   []string          ` + "`json:\"again\"`" + `
	Panics  []string          ` + "`json:\"panics\"`" + `
	Imports map[string]string ` + "`json:\"imports\"`" + `
}

// every session is one generated file: its own tracker, namer and writer, all in one process
func renderSession(target string) session {
	tk := namer.NewDefaultImportTracker()
	nm := namer.NewRawNamer(target, tk)
	s := session{Target: target, Texts: make([]string, len(values)), Again: make([]string, len(values)), Panics: make([]string, len(values))}
	render := func(v any) string {
		buf := bytes.NewBuffer(nil)
		gengo.NewSnippetWriter(buf, namer.NameSystems{"raw": nm}).Render(snippet.Value(v))
		return buf.String()
	}
	for i, v := range values {
		func() {
			defer func() {
				if x := recover(); x != nil {
					s.Panics[i] = fmt.Sprint(x)
				}
			}()
			s.Texts[i] = render(v)
			s.Again[i] = render(v)
		}()
	}
	s.Imports = tk.Imports()
	return s
}

func main() {
	var out []session
	// with the map-order seam built in, the sessions run under different iteration policies
	// (ascending, descending, -, rotated): the rendered texts must not depend on them
	policies := []int{0, 1, 0, 2}
	for i, target := range []string{"` + modPath + `/tgt", "` + modPath + `/tgt", "` + modPath + `/vt", "` + modPath + `/tgt"} {
		setPolicy(policies[i])
		out = append(out, renderSession(target))
	}
	_ = json.NewEncoder(os.Stdout).Encode(out)
}
`)
	if seamctl.Available() {
		a.WriteString("\nfunc setPolicy(p int) { zzseam.SetPolicy(p, nil) }\n")
	} else {
		a.WriteString("\nfunc setPolicy(p int) {}\n")
	}
	t := pipe.Tree{
		"go.mod": gomod, "go.sum": string(sum),
		"vt/vt.go": vtSource, "vt2/vt2.go": vt2Source, "clash/vt/vt.go": cvtSource, "tgt/tgt.go": tgtSource,
		"verifkit/kit.go":    gocheck.VerifKit,
		"cmd/render/main.go": a.String(),
	}
	if err := pipe.WriteTree(dir, t); err != nil {
		c.Internal("%v", err)
		return
	}
	var out []byte
	var err error
	if seamctl.Available() {
		out, err = goRun(dir, "-overlay", core.Root()+"/mc/.overlay/seam.json", "./cmd/render")
	} else {
		out, err = goRun(dir, "./cmd/render")
	}
	if err != nil {
		c.Internal("program A (rendering) failed: %v", err)
		return
	}
	var sessions []rendered
	if err := json.Unmarshal(out, &sessions); err != nil || len(sessions) != 4 || len(sessions[0].Texts) != len(vals) {
		c.Internal("program A output: %v", err)
		return
	}
	r := sessions[0]
	c.Trans(8 * len(vals))
	failed := make([]bool, len(vals))
	fail := func(i int, class, format string, args ...any) {
		if !failed[i] {
			failed[i] = true
			c.Fail(class, Case{vals[i]}, "value %s of type %s: "+format, append([]any{q(vals[i].Expr, ""), q(vals[i].Type, "")}, args...)...)
		}
	}
	// a later generated file of the same process (sessions 1 and 3; session 2 renders for another
	// target in between) must render every value identically and register the same imports
	for _, si := range []int{1, 3} {
		o := sessions[si]
		for i := range vals {
			if o.Texts[i] != r.Texts[i] || o.Panics[i] != r.Panics[i] {
				fail(i, "", "rendered as %q in the first file of the process but as %q (panic %q) in file %d for the same target", r.Texts[i], o.Texts[i], o.Panics[i], si+1)
			}
		}
		if fmt.Sprint(o.Imports) != fmt.Sprint(r.Imports) {
			witness := vals[0]
			for _, v := range vals {
				if strings.Contains(v.Type, "vt.") && strings.Contains(v.Type, "[") {
					witness = v // a value whose literal names a foreign type: reproduces alone
					break
				}
			}
			c.Fail("", Case{witness}, "file %d of the process registered the imports %v, the first file %v, for the same values and target", si+1, o.Imports, r.Imports)
		}
	}
	groups := map[string][]int{}
	for i, v := range vals {
		c.Eval(1)
		c.State(typeClass(v.Type))
		if strings.ContainsAny(v.Expr, "{*") || strings.Contains(v.Expr, "ptr(") {
			c.Nontrivial(v.Type + "|" + v.Expr)
		}
		if r.Panics[i] != "" {
			fail(i, classify(v, ""), "rendering panicked: %s", r.Panics[i])
			continue
		}
		if _, err := parser.ParseExpr(r.Texts[i]); err != nil {
			fail(i, classify(v, r.Texts[i]), "the rendered text %q is not a Go expression: %v", r.Texts[i], err)
			continue
		}
		if r.Texts[i] != r.Again[i] {
			fail(i, "", "rendered twice with different text: %q vs %q", r.Texts[i], r.Again[i])
		}
		if v.Group != "" {
			groups[v.Group] = append(groups[v.Group], i)
		}
	}
	for g, idx := range groups {
		for _, i := range idx[1:] {
			if !failed[i] && !failed[idx[0]] && r.Texts[i] != r.Texts[idx[0]] {
				fail(i, "", "the same map built in another insertion order renders differently (group %s): %q vs %q", g, r.Texts[i], r.Texts[idx[0]])
			}
		}
	}
	// imports registered: only the packages of the module may appear
	var impLines strings.Builder
	var ipaths []string
	for p := range r.Imports {
		ipaths = append(ipaths, p)
	}
	sort.Strings(ipaths)
	uses := ""
	for _, p := range ipaths {
		n := r.Imports[p]
		fmt.Fprintf(&impLines, "\t%s %q\n", n, p)
		switch p {
		case modPath + "/vt":
			uses += "var _ " + n + ".MyInt\n"
		case modPath + "/vt2":
			uses += "var _ " + n + ".Other\n"
		case modPath + "/clash/vt":
			uses += "var _ " + n + ".C\n"
		default:
			c.Fail("", Case{}, "rendering registered the unexpected import %q", p)
			return
		}
	}
	// packages no literal referred to (named scalars render as bare untyped constants): the want side and
	// the declared types still need them, under names of the harness' own
	full := map[string]string{}
	for p, n := range r.Imports {
		full[p] = n
	}
	for _, d := range []struct{ path, name, use string }{{modPath + "/vt", "hvt", "MyInt"}, {modPath + "/vt2", "hvt2", "Other"}, {modPath + "/clash/vt", "hcvt", "C"}} {
		if _, ok := full[d.path]; !ok {
			full[d.path] = d.name
			fmt.Fprintf(&impLines, "\t%s %q\n", d.name, d.path)
			uses += "var _ " + d.name + "." + d.use + "\n"
		}
	}
	writeB := func(skip []bool) error {
		var b strings.Builder
		b.WriteString("package tgt\n\nimport (\n" + impLines.String() + "\t\"" + modPath + "/verifkit\"\n)\n\n" + uses + "var _ = verifkit.CheckValue // every case of the batch may have been skipped\n\n")
		// the want side uses its own fixed import names
		b.WriteString("//want-imports\n")
		for i, v := range vals {
			if skip[i] || r.Panics[i] != "" {
				continue
			}
			fmt.Fprintf(&b, "//case:%d\nvar got_%d %s = %s\n", i, i, rewriteQual(q(v.Type, ""), full), r.Texts[i])
		}
		b.WriteString("//case:-1\n\nfunc VerifRun() (checks int, fails []string) {\n")
		for i, v := range vals {
			if skip[i] || r.Panics[i] != "" {
				continue
			}
			fmt.Fprintf(&b, "\tverifkit.CheckValue(&checks, &fails, %d, got_%d, %s)\n", i, i, wantExpr(v, full))
		}
		b.WriteString("\treturn\n}\n")
		return os.WriteFile(dir+"/tgt/verif_check.go", []byte(b.String()), 0o644)
	}
	skip := make([]bool, len(vals))
	copy(skip, failed)
	if err := writeB(skip); err != nil {
		c.Internal("%v", err)
		return
	}
	_ = os.RemoveAll(dir + "/cmd")
	// type-check every literal: all errors of the file, mapped back to their case by the markers
	pkgs, err := packages.Load(&packages.Config{Dir: dir, Mode: packages.NeedName | packages.NeedFiles | packages.NeedCompiledGoFiles | packages.NeedImports | packages.NeedDeps | packages.NeedTypes | packages.NeedSyntax | packages.NeedTypesInfo,
		Env: append(os.Environ(), "GOFLAGS=-mod=mod", "GOPROXY=off", "GOTOOLCHAIN=local", "GOWORK=off")}, "./tgt")
	if err != nil || len(pkgs) != 1 {
		c.Internal("type-check load: %v", err)
		return
	}
	src, _ := os.ReadFile(dir + "/tgt/verif_check.go")
	lines := strings.Split(string(src), "\n")
	caseOfLine := make([]int, len(lines)+2)
	cur := -1
	for li, l := range lines {
		if m := caseMarker.FindStringSubmatch(l); m != nil {
			cur, _ = strconv.Atoi(m[1])
		} else if strings.HasPrefix(l, "//case:-1") {
			cur = -1
		}
		caseOfLine[li+1] = cur
	}
	for _, e := range pkgs[0].Errors {
		parts := strings.Split(e.Pos, ":")
		if len(parts) < 2 || !strings.HasSuffix(parts[0], "verif_check.go") {
			c.Internal("type error outside the check file: %s: %s", e.Pos, e.Msg)
			return
		}
		ln, _ := strconv.Atoi(parts[1])
		if ln < len(caseOfLine) && caseOfLine[ln] >= 0 {
			i := caseOfLine[ln]
			fail(i, classify(vals[i], r.Texts[i]), "the rendered literal %q does not type-check as that type: %s", r.Texts[i], e.Msg)
		} else {
			line := ""
			if ln-1 >= 0 && ln-1 < len(lines) {
				line = lines[ln-1]
			}
			c.Internal("type error not attributable to a literal: %s: %s\n\t%s", e.Pos, e.Msg, line)
			return
		}
	}
	copy(skip, failed)
	if err := writeB(skip); err != nil {
		c.Internal("%v", err)
		return
	}
	berr, err := gocheck.BuildErrors(dir, "./tgt")
	if err != nil || len(berr) > 0 {
		c.Internal("program B does not compile after removing the literals with type errors: %v %v", err, berr)
		return
	}
	reps, err := gocheck.RunMain(dir, modPath, []string{modPath + "/tgt"})
	if err != nil {
		c.Internal("%v", err)
		return
	}
	c.Trace(1)
	for _, rep := range reps {
		for _, f := range rep.Fails {
			var i int
			rest := f
			if k := strings.Index(f, ":"); k > 0 {
				i, _ = strconv.Atoi(f[:k])
				rest = f[k+1:]
			}
			fail(i, classify(vals[i], r.Texts[i]), "rendered as %q, which%s", r.Texts[i], rest)
		}
	}
}

// the want side: the trusted expression, with the qualifiers the tracker chose
func wantExpr(v Val, imports map[string]string) string {
	return rewriteQual(q(v.Expr, ""), imports)
}

func rewriteQual(s string, imports map[string]string) string {
	// the model writes vt. / vt2. / cvt.; the file must use the names the tracker registered (a
	// package nothing referred to keeps the model's name: then nothing in the file uses it either)
	name := func(path, dflt string) string {
		if n, ok := imports[path]; ok {
			return n
		}
		return dflt
	}
	n1, n2, n3 := name(modPath+"/vt", "vt"), name(modPath+"/vt2", "vt2"), name(modPath+"/clash/vt", "cvt")
	s = strings.ReplaceAll(s, "cvt.", "\x01")
	s = strings.ReplaceAll(s, "vt2.", "\x00")
	s = strings.ReplaceAll(s, "vt.", n1+".")
	s = strings.ReplaceAll(s, "\x00", n2+".")
	s = strings.ReplaceAll(s, "\x01", n3+".")
	return s
}

func typeClass(t string) string {
	r := strings.NewReplacer("cvt.", "", "vt2.", "", "vt.", "", "$L.", "")
	t = r.Replace(t)
	if len(t) > 24 {
		t = t[:24]
	}
	return t
}

func classify(v Val, text string) string { return "" }

func run(c *core.Ctx) {
	vals := values(c.Thorough())
	c.Bound("values", len(vals))
	c.Bound("seam_available", seamctl.Available())
	var st []string
	for _, s := range scalars {
		st = append(st, s.typ)
	}
	c.Bound("scalar_types", st)
	const batch = 700
	for i := 0; i < len(vals); i += batch {
		if !c.Next() {
			continue
		}
		checkVals(c, vals[i:min(i+batch, len(vals))])
	}
	c.Sample(Val{Type: "map[vt.Key]vt.Inner", Expr: "map[vt.Key]vt.Inner{vt.Key{A: 1, B: \"x\"}: vt.Inner{X: 1, Y: \"y\"}}"})
}

func replay(c *core.Ctx, raw json.RawMessage) {
	var cs Case
	if err := json.Unmarshal(raw, &cs); err != nil {
		c.Internal("bad case: %v", err)
		return
	}
	checkVals(c, []Val{cs.Val})
}

func init() {
	core.Register(&core.Prop{
		ID: "C10", Level: "model_checking", Run: run, Replay: replay, Shards: 4,
		Rule:        "value model: every listed boundary value of every scalar type (bool, all int/uint kinds incl. uintptr, runes, float32/64 edge values, strings with quotes/newlines/backquotes/non-UTF-8/NUL, and every string of <=2 (3) characters over 16 special characters: quote, backslash, backquote, LF, CR, TAB, NUL, DEL, invalid byte, BOM, U+2028, NBSP, apostrophe, non-ASCII, astral), named scalars of two foreign packages and of the target package, named scalars with String/Error/Format/GoString methods (display text differs from the literal), a one-level pointer to each of them (and nil pointers); for 9 element types: nil/empty/1/3-element slices, arrays, pointers, pointers to slices, maps under 6 key types (string, int, bool, named string, array, struct) incl. two insertion orders of the same map; structs with zero and non-zero members of every field kind (pointer to zero struct, zero struct as map value / slice element, embedded, anonymous, cross-package, and values mixing types that share package name and type name across two packages); depth-2 containers; int32/rune values around every Unicode boundary (surrogates, U+FFFD, end of Unicode); a nesting chain that puts zero-valued structs as element / map value / pointee / array element at every depth from 2 to 12. Each is rendered by snippet.Value in a compiled program, type-checked as `var got T = <text>` in the target package and compared at run time with the original (nil == empty); same text when rendered twice and for both insertion orders; the whole list is rendered in 4 sessions (files) of one process - same target, same target again, another target, the first target again - and sessions for the same target must agree in texts and registered imports; built with the map-order seam the sessions run under ascending / descending / rotated iteration of every map (reflect.MapKeys included). Non-trivial = composite/pointer values; states = distinct type shapes",
		Assumptions: []string{"NaN/Inf, complex numbers, pointer map keys, func/chan/interface-typed members and unexported fields are outside the stated domain"},
	})
}
