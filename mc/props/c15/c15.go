// Package c15: type references survive parsing, printing and import rewriting.
// Every reference string of the grammar
//
//	ref ::= [path '.'] ident [ '[' ref {',' ref} ']' ]
//
// up to a depth/width bound is pushed through ParseTypeRef, ParseRef,
// PkgImportPathAndExpose and snippet.ID + SnippetWriter and compared with the
// harness' own tree of the reference.
package c15

import (
	"bytes"
	"encoding/json"
	"fmt"
	"go/token"
	"sort"
	"strings"

	"github.com/octohelm/gengo/pkg/gengo"
	"github.com/octohelm/gengo/pkg/gengo/snippet"
	"github.com/octohelm/gengo/pkg/namer"
	gengotypes "github.com/octohelm/gengo/pkg/types"
	"verif/mc/core"
)

const target = "x.io/target"

// ("x.io/q/a" gets the import name a - which is also a one-element package PATH of the alphabet)
var allPaths = []string{"", "a", "x.io/p", "github.com/a/b/v2", "gopkg.in/yaml.v3", target, "x.io/q/a"}
var idents = []string{"T", "string"}

type node struct {
	path string
	name string
	args []*node
}

func (n *node) str() string {
	var b strings.Builder
	if n.path != "" {
		b.WriteString(n.path)
		b.WriteByte('.')
	}
	b.WriteString(n.name)
	if len(n.args) > 0 {
		b.WriteByte('[')
		for i, a := range n.args {
			if i > 0 {
				b.WriteByte(',')
			}
			b.WriteString(a.str())
		}
		b.WriteByte(']')
	}
	return b.String()
}

func (n *node) depth() int {
	d := 0
	for _, a := range n.args {
		if x := a.depth() + 1; x > d {
			d = x
		}
	}
	return d
}

// rewrite is the reference rewriter: path -> import name, target path dropped.
func (n *node) rewrite(names map[string]string) string { return n.rewriteFor(target, names) }

func (n *node) rewriteFor(target string, names map[string]string) string {
	var b strings.Builder
	if n.path != "" && n.path != target {
		b.WriteString(names[n.path])
		b.WriteByte('.')
	}
	b.WriteString(n.name)
	if len(n.args) > 0 {
		b.WriteByte('[')
		for i, a := range n.args {
			if i > 0 {
				b.WriteByte(',')
			}
			b.WriteString(a.rewriteFor(target, names))
		}
		b.WriteByte(']')
	}
	return b.String()
}

func (n *node) paths(set map[string]bool) { n.pathsFor(target, set) }

func (n *node) pathsFor(target string, set map[string]bool) {
	if n.path != "" && n.path != target {
		set[n.path] = true
	}
	for _, a := range n.args {
		a.pathsFor(target, set)
	}
}

type head struct{ path, name string }

func gen(ch *core.Chooser, heads []head, depth, width int) *node {
	h := heads[ch.Choose(len(heads))]
	n := &node{path: h.path, name: h.name}
	if depth == 0 {
		return n
	}
	k := ch.Choose(width + 1) // number of arguments
	for i := 0; i < k; i++ {
		n.args = append(n.args, gen(ch, heads, depth-1, width))
	}
	return n
}

func try(f func()) (p any) {
	defer func() { p = recover() }()
	f()
	return nil
}

type Case struct {
	Ref string `json:"ref"`
}

// parse of the harness' own grammar (for replay)
func parse(s string) (*node, string) {
	i := 0
	for i < len(s) && s[i] != '[' && s[i] != ',' && s[i] != ']' {
		i++
	}
	headStr := s[:i]
	n := &node{}
	if j := strings.LastIndex(headStr, "."); j > 0 {
		n.path, n.name = headStr[:j], headStr[j+1:]
	} else {
		n.name = headStr
	}
	rest := s[i:]
	if strings.HasPrefix(rest, "[") {
		rest = rest[1:]
		for {
			var a *node
			a, rest = parse(rest)
			n.args = append(n.args, a)
			if strings.HasPrefix(rest, ",") {
				rest = rest[1:]
				continue
			}
			break
		}
		rest = strings.TrimPrefix(rest, "]")
	}
	return n, rest
}

func checkRef(c *core.Ctx, n *node) {
	s := n.str()
	cs := Case{Ref: s}
	c.Eval(1)
	c.Trans(4)
	c.State(fmt.Sprintf("d%d/top=%v/args=%d", n.depth(), n.path != "", len(n.args)))
	if n.depth() >= 1 {
		c.Nontrivial(s)
	}

	// (1) ParseTypeRef round trip
	var tr *gengotypes.TypeRef
	var err error
	if p := try(func() { tr, err = gengotypes.ParseTypeRef(s) }); p != nil {
		c.Fail("", cs, "ParseTypeRef(%q) panicked: %v", s, p)
	} else if err != nil {
		c.Fail(classNestedComma(n), cs, "ParseTypeRef(%q) failed: %v", s, err)
	} else if got := tr.String(); got != s {
		c.Fail(classNestedComma(n), cs, "ParseTypeRef(%q).String() = %q", s, got)
	} else if !sameTree(tr, n) {
		c.Fail("", cs, "ParseTypeRef(%q) built a different tree", s)
	}

	// (2) ParseRef / PkgImportPathAndExpose agree on the split point
	p2, expose := gengo.PkgImportPathAndExpose(s)
	suffix := ""
	if i := strings.Index(s, "["); i > 0 {
		suffix = s[i:]
	}
	if n.path != "" {
		if p2 != n.path || expose != n.name {
			c.Fail("", cs, "PkgImportPathAndExpose(%q) = (%q,%q), want (%q,%q)", s, p2, expose, n.path, n.name)
		}
		r, err := gengotypes.ParseRef(s)
		if err != nil {
			c.Fail("", cs, "ParseRef(%q) failed: %v", s, err)
		} else {
			if r.Pkg().Path() != p2 || r.Name() != expose+suffix {
				c.Fail("", cs, "ParseRef(%q) = (%q,%q) disagrees with PkgImportPathAndExpose (%q,%q)+%q", s, r.Pkg().Path(), r.Name(), p2, expose, suffix)
			}
			if r.String() != s {
				c.Fail("", cs, "ParseRef(%q).String() = %q", s, r.String())
			}
		}
	} else {
		if p2 != "" || expose != n.name {
			c.Fail("", cs, "PkgImportPathAndExpose(%q) = (%q,%q), want (\"\",%q)", s, p2, expose, n.name)
		}
	}

	// (3) rendering through the naming system
	buf := bytes.NewBuffer(nil)
	tk := namer.NewDefaultImportTracker()
	w := gengo.NewSnippetWriter(buf, namer.NameSystems{"raw": namer.NewRawNamer(target, tk)})
	// (ONE snippet value is rendered through both naming systems of this case, as a generator does that
	// keeps a reference in a variable; for references with a package path the same holds for PkgExpose)
	sn := snippet.ID(s)
	if p := try(func() { w.Render(sn) }); p != nil {
		c.Fail(classNestedComma(n), cs, "rendering ID(%q) panicked: %v", s, p)
		return
	}
	got := buf.String()
	var exposed snippet.Snippet
	if n.path != "" {
		exposed = snippet.PkgExpose(n.path, strings.TrimPrefix(s, n.path+"."))
		ebuf := bytes.NewBuffer(nil)
		etk := namer.NewDefaultImportTracker()
		ew := gengo.NewSnippetWriter(ebuf, namer.NameSystems{"raw": namer.NewRawNamer(target, etk)})
		if p := try(func() { ew.Render(exposed) }); p != nil {
			c.Fail(classNestedComma(n), cs, "rendering PkgExpose(%q, %q) panicked: %v", n.path, strings.TrimPrefix(s, n.path+"."), p)
			exposed = nil
		} else if ebuf.String() != got {
			c.Fail("", cs, "PkgExpose(%q, %q) rendered %q, ID(%q) rendered %q for the same target", n.path, strings.TrimPrefix(s, n.path+"."), ebuf.String(), s, got)
		}
	}
	imports := tk.Imports()
	wantPaths := map[string]bool{}
	n.paths(wantPaths)
	var gotP, wantP []string
	for p := range imports {
		gotP = append(gotP, p)
	}
	for p := range wantPaths {
		wantP = append(wantP, p)
	}
	sort.Strings(gotP)
	sort.Strings(wantP)
	want := n.rewrite(imports)
	class := ""
	if n.path == "" && len(wantP) > 0 && got == s && len(gotP) == 0 {
		class = "C15-pathless-generic-rendered-verbatim"
	}
	if fmt.Sprint(gotP) != fmt.Sprint(wantP) {
		c.Fail(class, cs, "ID(%q) registered %v, want exactly %v (rendered %q)", s, gotP, wantP, got)
		return
	}
	for _, p := range gotP {
		if !token.IsIdentifier(imports[p]) {
			c.Fail("", cs, "ID(%q): import name %q for %q is not an identifier", s, imports[p], p)
			return
		}
	}
	if got != want {
		c.Fail(class, cs, "ID(%q) rendered %q, want %q", s, got, want)
	}

	// (4) history: the same reference rendered again by a fresh namer for ANOTHER target package,
	// and parsed again, must not be influenced by the first rendering
	const target2 = "x.io/p"
	buf2 := bytes.NewBuffer(nil)
	tk2 := namer.NewDefaultImportTracker()
	w2 := gengo.NewSnippetWriter(buf2, namer.NameSystems{"raw": namer.NewRawNamer(target2, tk2)})
	if p := try(func() { w2.Render(sn) }); p != nil {
		c.Fail("", cs, "second rendering of ID(%q) (target %s) panicked: %v", s, target2, p)
		return
	}
	if exposed != nil {
		ebuf := bytes.NewBuffer(nil)
		etk := namer.NewDefaultImportTracker()
		ew := gengo.NewSnippetWriter(ebuf, namer.NameSystems{"raw": namer.NewRawNamer(target2, etk)})
		if p := try(func() { ew.Render(exposed) }); p != nil {
			c.Fail("", cs, "second rendering of the PkgExpose value of %q (target %s) panicked: %v", s, target2, p)
		} else {
			ei := etk.Imports()
			wp := map[string]bool{}
			n.pathsFor(target2, wp)
			same := len(ei) == len(wp)
			for p := range wp {
				if _, ok := ei[p]; !ok {
					same = false
				}
			}
			if !same {
				c.Fail("C15-snippet-value-remembers-its-first-naming-system", cs, "the PkgExpose value of %q, rendered for %s after it was rendered for %s, registered %v, want exactly the packages %v", s, target2, target, ei, wp)
			} else if want := n.rewriteFor(target2, ei); ebuf.String() != want {
				c.Fail("C15-snippet-value-remembers-its-first-naming-system", cs, "the PkgExpose value of %q, rendered for %s after it was rendered for %s, gives %q, want %q", s, target2, target, ebuf.String(), want)
			}
		}
	}
	want2Paths := map[string]bool{}
	n.pathsFor(target2, want2Paths)
	imports2 := tk2.Imports()
	var g2, w2p []string
	for p := range imports2 {
		g2 = append(g2, p)
	}
	for p := range want2Paths {
		w2p = append(w2p, p)
	}
	sort.Strings(g2)
	sort.Strings(w2p)
	if fmt.Sprint(g2) != fmt.Sprint(w2p) {
		c.Fail("", cs, "after a first rendering for %s, ID(%q) rendered for %s registered %v, want exactly %v (rendered %q)", target, s, target2, g2, w2p, buf2.String())
	} else if want2 := n.rewriteFor(target2, imports2); buf2.String() != want2 {
		c.Fail("", cs, "after a first rendering for %s, ID(%q) rendered for %s gives %q, want %q", target, s, target2, buf2.String(), want2)
	}
	if tr2, err := gengotypes.ParseTypeRef(s); err != nil || tr2.String() != s {
		c.Fail("", cs, "after rendering, ParseTypeRef(%q) no longer round-trips: %v %v", s, tr2, err)
	}
}

// the recorded ParseTypeRef defect: a comma that follows a bracket group nested
// at depth >= 2 inside the top-level argument list
func classNestedComma(n *node) string {
	var has func(x *node, level int) bool
	has = func(x *node, level int) bool {
		for i, a := range x.args {
			if level >= 1 && i+1 < len(x.args) && a.depth() >= 1 {
				return true
			}
			if level == 0 && i+1 < len(x.args) && a.depth() >= 2 {
				return true
			}
			if has(a, level+1) {
				return true
			}
		}
		return false
	}
	if has(n, 0) {
		return "C15-parsetyperef-nested-comma"
	}
	return ""
}

func sameTree(t *gengotypes.TypeRef, n *node) bool {
	if t.PkgPath != n.path || t.Name != n.name || len(t.TypeList) != len(n.args) {
		return false
	}
	for i := range n.args {
		if !sameTree(t.TypeList[i], n.args[i]) {
			return false
		}
	}
	return true
}

func heads(paths []string, ids []string) []head {
	var hs []head
	for _, p := range paths {
		for _, i := range ids {
			hs = append(hs, head{p, i})
		}
	}
	return hs
}

type space struct {
	name         string
	heads        []head
	depth, width int
}

func run(c *core.Ctx) {
	full := heads(allPaths, idents)
	three := []head{{"", "T"}, {"x.io/p", "T"}, {target, "T"}, {"gopkg.in/yaml.v3", "T"}}
	two := []head{{"", "T"}, {"x.io/p", "T"}}
	spaces := []space{
		{"all-heads depth1 width3", full, 1, 3},
		{"4-heads depth2 width2", three, 2, 2},
		{"2-heads depth3 width2", two, 3, 2},
		{"2-heads depth2 width3", two, 2, 3},
		// a package path that is spelled like the import name another package gets, in every nesting order
		{"name-like-path-heads depth2 width2", []head{{"", "T"}, {"a", "T"}, {"x.io/q/a", "T"}}, 2, 2},
		// path elements that merely END in "vendor" (no vendor directory anywhere)
		{"vendor-like-heads depth2 width2", []head{{"", "T"}, {"x.io/govendor/ctx", "T"}, {"multivendor/catalog", "T"}}, 2, 2},
	}
	if c.Thorough() {
		spaces = append(spaces,
			space{"all-heads depth2 width2", full, 2, 2},
			space{"3-heads depth2 width3", three[:3], 2, 3},
		)
	}
	var names []string
	for _, sp := range spaces {
		names = append(names, sp.name)
		core.Explore(c, core.ExploreOpts{Bound: -1}, func(ch *core.Chooser, _ bool) {
			n := gen(ch, sp.heads, sp.depth, sp.width)
			if !c.Next() {
				return
			}
			checkRef(c, n)
			if n.depth() == 2 && len(n.args) == 2 {
				c.Sample(map[string]any{"ref": n.str()})
			}
		})
	}
	// wide argument lists: every width 1..9 (12), every non-empty set of <=2 positions holding a generic
	// argument (with 1 or 2 arguments of its own), the others plain; every argument is a different name
	maxW := c.Pick(9, 12)
	for w := 1; w <= maxW; w++ {
		for i := 0; i < w; i++ {
			for j := i; j < w; j++ {
				for inner := 1; inner <= 2; inner++ {
					if !c.Next() {
						continue
					}
					root := &node{path: "x.io/p", name: "Wide"}
					for k := 0; k < w; k++ {
						a := &node{path: fmt.Sprintf("x.io/arg%d/pkg", k), name: fmt.Sprintf("A%d", k)}
						if k == i || k == j {
							for m := 0; m < inner; m++ {
								a.args = append(a.args, &node{path: fmt.Sprintf("x.io/inner%d/of%d", m, k), name: fmt.Sprintf("I%d", m)})
							}
						}
						root.args = append(root.args, a)
					}
					checkRef(c, root)
				}
			}
		}
	}
	c.Bound("wide_argument_lists", fmt.Sprintf("widths 1..%d, generic arguments at every set of <=2 positions, 1 or 2 inner arguments", maxW))
	c.Bound("spaces", names)
	c.Bound("paths", allPaths)
	c.Bound("idents", idents)
	c.Bound("target_package", target)
}

func replay(c *core.Ctx, raw json.RawMessage) {
	var cs Case
	if err := json.Unmarshal(raw, &cs); err != nil {
		c.Internal("bad case: %v", err)
		return
	}
	n, rest := parse(cs.Ref)
	if rest != "" || n.str() != cs.Ref {
		c.Internal("cannot parse recorded reference %q", cs.Ref)
		return
	}
	checkRef(c, n)
}

func init() {
	core.Register(&core.Prop{
		ID: "C15", Level: "model_checking", Run: run, Replay: replay,
		Rule: "every reference string of the grammar ref ::= [path '.'] ident ['[' ref {',' ref} ']'] inside the listed (heads, depth, width) spaces, heads = paths {none, a, x.io/p, github.com/a/b/v2, gopkg.in/yaml.v3 (dot in the last element), the target package, x.io/q/a (whose import name is spelled like the one-element path a)} x idents {T, string}; non-trivial = has a bracketed argument list; states = distinct (depth, top-level path?, argument count) classes",
		Assumptions: []string{
			"paths containing '[' ',' ']' or '/vendor/' are outside the grammar",
			"the reference rewriter takes import names from the tracker (uniqueness/validity of names is C03's subject)",
		},
	})
}
