// Package c02: a failed generation never damages existing output or marks
// work as done. One fault (returned error, unparseable rendering, panic,
// runtime.Goexit, os.Exit, SIGKILL) is injected at EVERY GenerateType call
// index and EVERY Defer callback index of a multi-package run (All on/off);
// thorough adds all depth-2 fault sequences and every torn prefix of
// gengo.sum. Oracles: error text, byte snapshots, behaviour of the next clean
// run, differential comparison with the never-failed run.
package c02

import (
	"encoding/json"
	"fmt"
	"os"
	"path/filepath"
	"sort"
	"strings"

	"golang.org/x/mod/sumdb/dirhash"
	"verif/mc/core"
	"verif/mc/pipe"
)

const modPath = "x.io/test"

func module() pipe.Tree {
	return pipe.Tree{
		"go.mod": pipe.GoMod(modPath, "1.24"),
		"a/a.go": "package a\n\nimport \"x.io/test/b\"\n\ntype A1 struct{ B b.B1 }\n\ntype A2 int\n\n// AL is an alias declaration.\ntype AL = A2\n",
		"b/b.go": "package b\n\ntype B1 struct{}\n\ntype B2 string\n\n// BL is an alias declaration.\ntype BL = B1\n",
		"c/c.go": "package c\n\ntype C1 struct{}\n\ntype C2 []int\n\n// CL is an alias declaration.\ntype CL = C2\n",
	}
}

var kinds = []string{"error", "unparseable", "panic", "goexit", "exit", "kill",
	"unparseable:unterminated-string", "unparseable:nul-byte", "unparseable:statement-at-top-level", "unparseable:garbage-after-valid-declarations", "unparseable:stray-closing-brace",
	"unparseable:behind-a-line-directive", "unparseable:behind-a-line-directive-with-a-large-line", "unparseable:behind-a-line-directive-naming-the-output-file"}

var unparseableTexts = map[string]string{
	"unparseable":                                  "func {\n",
	"unparseable:unterminated-string":              "var S_$T = \"abc\n",
	"unparseable:nul-byte":                         "var N_$T = 1 \x00\n",
	"unparseable:statement-at-top-level":           "x_$T := 1\n",
	"unparseable:garbage-after-valid-declarations": "var Ok_$T = 1\n\nfunc Fine_$T() {}\n\n)\n",
	"unparseable:stray-closing-brace":              "}\n",
	// the error is reported at a position a //line directive moved into another file (template-mapping generators)
	"unparseable:behind-a-line-directive":                        "//line demo.tmpl:1\nfunc Broken_$T( {\n",
	"unparseable:behind-a-line-directive-with-a-large-line":      "var Ok_$T = 1\n\n//line demo.tmpl:900\nfunc Broken_$T( {\n",
	"unparseable:behind-a-line-directive-naming-the-output-file": "var Ok_$T = 1\n\n//line zz_generated.$G.go:900\nfunc Broken_$T( {\n",
}

func isUnparseable(kind string) bool { return strings.HasPrefix(kind, "unparseable") }

type Fault struct {
	Gen   string `json:"gen"`
	Index int    `json:"call_index"`
	Defer bool   `json:"in_defer_callback"`
	Kind  string `json:"kind"`
	// the fault sits in GenerateAliasType for this alias declaration (<pkgpath>.<Name>) instead of a GenerateType call
	AliasOf string `json:"in_alias_callback_for,omitempty"`
}

type Case struct {
	All    bool    `json:"all"`
	Faults []Fault `json:"faulty_runs"` // one fault per run, runs in sequence, then a clean run
	Torn   int     `json:"torn_sum_prefix,omitempty"`
	Mode   string  `json:"mode,omitempty"` // "", "torn", "files-written-sum-not-saved"
	// the module has previous outputs but NO gengo.sum when the faulty runs start (deleted, or only runs without All so far)
	NoSum bool `json:"no_sum_file_before,omitempty"`
	// the faulty runs (not the clean one that follows) have Force set
	Force bool `json:"faulty_runs_with_force,omitempty"`
}

func gens(f *Fault) []pipe.GenScript {
	g1 := pipe.GenScript{Name: "g1", Default: pipe.Action{Render: "var V_$T_$G = 1\n"}, Alias: &pipe.Action{Render: "var AL_$T_$G = 1\n"}}
	g2 := pipe.GenScript{Name: "g2", Default: pipe.Action{Render: "var V_$T_$G = 2\n", Defers: []pipe.Action{{Render: "var D_$T_$G = 2\n"}}}, Alias: &pipe.Action{Render: "var AL_$T_$G = 2\n"}}
	if f != nil {
		var a pipe.Action
		bad := pipe.Action{}
		switch {
		case isUnparseable(f.Kind):
			bad.Render = unparseableTexts[f.Kind]
		default:
			bad.Render = "var F_$T_$G = 0\n"
			bad.Ret = f.Kind
		}
		if f.Defer {
			a = pipe.Action{Render: "var V_$T_$G = 2\n", Defers: []pipe.Action{bad}}
		} else {
			a = bad
			if f.Gen == "g2" && isUnparseable(f.Kind) {
				a.Defers = []pipe.Action{{Render: "var D_$T_$G = 2\n"}}
			}
		}
		g := &g1
		if f.Gen == "g2" {
			g = &g2
		}
		if f.AliasOf != "" {
			g.AliasByType = map[string]pipe.Action{f.AliasOf: a}
		} else {
			g.ByCall = map[int]pipe.Action{f.Index: a}
		}
	}
	return []pipe.GenScript{g1, g2}
}

func spec(dir string, all bool, f *Fault) pipe.Spec {
	eps := []string{"./a", "./c"} // b is reached through a (processed only when All)
	return pipe.Spec{Dir: dir, Entrypoints: eps, All: all,
		Globals: map[string][]string{"gengo:g1": {"true"}, "gengo:g2": {"true"}}, Gens: gens(f)}
}

// prepare: pristine module -> clean All run (previous outputs + gengo.sum) -> edit every package
func prepare(c *core.Ctx, dir string) bool {
	if err := pipe.WriteTree(dir, module()); err != nil {
		c.Internal("%v", err)
		return false
	}
	o := pipe.Exec(spec(dir, true, nil))
	if !o.OK() {
		c.Internal("initial clean run failed: %+v", o)
		return false
	}
	for _, p := range []string{"a", "b", "c"} {
		f := filepath.Join(dir, p, p+".go")
		b, _ := os.ReadFile(f)
		_ = os.WriteFile(f, append(b, []byte("\n// edited\nvar Edited = 1\n")...), 0o644)
	}
	return true
}

func pkgsOf(o pipe.Outcome) []string {
	set := map[string]bool{}
	for _, e := range o.Log {
		if e.Kind == "type" {
			set[strings.TrimPrefix(e.Pkg, modPath+"/")] = true
		}
	}
	var out []string
	for k := range set {
		out = append(out, k)
	}
	sort.Strings(out)
	return out
}

func generated(t pipe.Tree) pipe.Tree {
	g := pipe.Tree{}
	for k, v := range t {
		if strings.Contains(k, "/zz_generated.") {
			g[k] = v
		}
	}
	return g
}

type ref struct {
	log  []pipe.Event
	tree pipe.Tree
	pkgs []string
}

var refs = map[bool]*ref{}

// the never-failed run from the prepared state
func reference(c *core.Ctx, all bool) *ref {
	if r, ok := refs[all]; ok {
		return r
	}
	dir := pipe.TempDir("c02ref")
	defer os.RemoveAll(dir)
	if !prepare(c, dir) {
		return nil
	}
	o := pipe.Exec(spec(dir, all, nil))
	if !o.OK() {
		c.Internal("reference run failed: %+v", o)
		return nil
	}
	t, _ := pipe.ReadTree(dir)
	r := &ref{log: o.Log, tree: t, pkgs: pkgsOf(o)}
	refs[all] = r
	return r
}

// faultPoints enumerates every (generator, call index, defer?) of the reference run
func faultPoints(r *ref) []Fault {
	var out []Fault
	n := map[string]int{}
	for _, e := range r.log {
		if e.Kind == "type" {
			out = append(out, Fault{Gen: e.Gen, Index: n[e.Gen]})
			if e.Gen == "g2" {
				out = append(out, Fault{Gen: e.Gen, Index: n[e.Gen], Defer: true})
			}
			n[e.Gen]++
		}
		if e.Kind == "alias" {
			out = append(out, Fault{Gen: e.Gen, AliasOf: e.Pkg + "." + e.Type})
		}
	}
	return out
}

func pkgOfCall(r *ref, gen string, idx int) string {
	n := 0
	for _, e := range r.log {
		if e.Kind == "type" && e.Gen == gen {
			if n == idx {
				return strings.TrimPrefix(e.Pkg, modPath+"/")
			}
			n++
		}
	}
	return ""
}

func checkCase(c *core.Ctx, cs Case) {
	c.Eval(1)
	c.Trace(1)
	r := reference(c, cs.All)
	if r == nil {
		return
	}
	dir := pipe.TempDir("c02")
	defer os.RemoveAll(dir)
	if !prepare(c, dir) {
		return
	}
	if cs.NoSum {
		_ = os.Remove(filepath.Join(dir, "gengo.sum"))
	}
	label := ""
	switch cs.Mode {
	case "torn":
		// the clean run's new gengo.sum cut after Torn bytes (the single Write of Save can be cut anywhere)
		newSum := r.tree["gengo.sum"]
		if cs.Torn > len(newSum) {
			return
		}
		// files as the clean run left them, sum torn
		_ = pipe.WriteTree(dir, generated(r.tree))
		_ = os.WriteFile(filepath.Join(dir, "gengo.sum"), []byte(newSum[:cs.Torn]), 0o644)
		checkAfterTorn(c, cs, dir, newSum[:cs.Torn])
		return
	case "files-written-sum-not-saved":
		_ = pipe.WriteTree(dir, generated(r.tree)) // all outputs written, old gengo.sum still in place
		label = "crash after the last file was written, before gengo.sum was saved"
	}
	for fi := range cs.Faults {
		f := cs.Faults[fi]
		before, _ := pipe.ReadTree(dir)
		failPkg := pkgOfCall(r, f.Gen, f.Index)
		if f.AliasOf != "" {
			failPkg = strings.TrimPrefix(f.AliasOf[:strings.LastIndex(f.AliasOf, ".")], modPath+"/")
		}
		var o pipe.Outcome
		status, sig := 0, ""
		if f.Kind == "kill" || f.Kind == "exit" {
			var err error
			sp := spec(dir, cs.All, &f)
			sp.Force = cs.Force
			o, status, sig, err = pipe.ExecChild(sp)
			if err != nil {
				c.Internal("child: %v", err)
				return
			}
		} else {
			sp := spec(dir, cs.All, &f)
			sp.Force = cs.Force
			o = pipe.Exec(sp)
		}
		c.Trans(1)
		after, _ := pipe.ReadTree(dir)
		c.State(fmt.Sprintf("%s|%v|%v|%s|err=%v", f.Kind, f.Defer, cs.All, failPkg, o.Err != ""))
		desc := fmt.Sprintf("fault %+v (package %s, All=%v)", f, failPkg, cs.All)

		if failPkg == "" {
			c.Internal("fault point %+v not reached in reference", f)
			return
		}
		// was the fault reached? (with All=false package b is not processed, so its call indices shift: use the run's own log)
		kind := f.Kind
		if isUnparseable(kind) {
			kind = "unparseable"
		}
		switch kind {
		case "error":
			if o.Err == "" && o.Panic != "" {
				c.Fail("", cs, "%s: a generator returned an error: Execute did not return it, it panicked: %s", desc, o.Panic)
			} else if o.Err == "" {
				c.Fail("", cs, "%s: a generator returned an error but Execute returned nil", desc)
			} else if !strings.Contains(o.Err, f.Gen) || !strings.Contains(o.Err, modPath+"/"+failPkg) {
				c.Fail("", cs, "%s: Execute error %q does not name generator %q and package %q", desc, o.Err, f.Gen, modPath+"/"+failPkg)
			}
		case "unparseable":
			fn := failPkg + "/zz_generated." + f.Gen + ".go:"
			if strings.Contains(f.Kind, "line-directive") && !strings.Contains(f.Kind, "output-file") {
				// the syntax position is where the //line directive says it is (a file next to the output)
				fn = failPkg + "/demo.tmpl:"
			}
			if o.Err == "" && o.Panic != "" {
				c.Fail("C02-syntax-error-report-panics", cs, "%s: unparseable rendering: Execute did not return an error, it panicked: %s", desc, o.Panic)
			} else if o.Err == "" {
				c.Fail("", cs, "%s: unparseable rendering but Execute returned nil", desc)
			} else if !strings.Contains(o.Err, fn) {
				c.Fail("", cs, "%s: Execute error %q does not carry the syntax position %s<line>:<col>", desc, o.Err, fn)
			}
		case "panic", "goexit":
			if o.Panic == "" {
				c.Fail("", cs, "%s: the generator panicked / exited the goroutine but Execute completed (err=%q)", desc, o.Err)
			}
		case "kill":
			if sig != "killed" {
				c.Internal("%s: child was expected to die from SIGKILL, status=%d sig=%q panic=%q", desc, status, sig, o.Panic)
				return
			}
		case "exit":
			if status != 3 {
				c.Internal("%s: child was expected to exit 3, status=%d sig=%q", desc, status, sig)
				return
			}
		}
		// gengo.sum byte-identical after every kind of failure
		if _, was := before["gengo.sum"]; !was {
			if now, is := after["gengo.sum"]; is {
				c.Fail("", cs, "%s: there was no gengo.sum before the failed run, afterwards there is one (%d bytes)", desc, len(now))
			}
		}
		if before["gengo.sum"] != after["gengo.sum"] {
			c.Fail("", cs, "%s: gengo.sum was rewritten by a failed run\n--- before ---\n%s--- after ---\n%s", desc, before["gengo.sum"], after["gengo.sum"])
		}
		// the failing generator's previous file is byte-identical (returned error / unparseable rendering)
		if f.Kind == "error" || isUnparseable(f.Kind) {
			prev := failPkg + "/zz_generated." + f.Gen + ".go"
			if _, ok := before[prev]; !ok {
				c.Internal("no previous output %s", prev)
			}
			if before[prev] != after[prev] {
				c.Fail("", cs, "%s: previously generated %s was damaged by the failed run\n--- before ---\n%s--- after ---\n%s", desc, prev, before[prev], after[prev])
			}
		}
		// nothing but <base>.* files of processed packages may have changed
		cr, ch, de := pipe.Diff(before, after)
		for _, p := range append(append(cr, ch...), de...) {
			if !strings.Contains(p, "/zz_generated.") {
				c.Fail("", cs, "%s: the failed run touched %s", desc, p)
			}
		}
	}
	// a following clean run regenerates every package (nothing was cached before the fault) ...
	o := pipe.Exec(spec(dir, cs.All, nil))
	c.Trans(1)
	if !o.OK() {
		c.Fail("", cs, "%s clean run after the failure failed: %+v", label, o)
		return
	}
	if got := pkgsOf(o); fmt.Sprint(got) != fmt.Sprint(r.pkgs) {
		c.Fail("", cs, "%s clean run after the failure invoked generators for %v, the never-failed run for %v: half-written output was trusted", label, got, r.pkgs)
	}
	// ... and ends in exactly the generated files of the never-failed run
	final, _ := pipe.ReadTree(dir)
	if cr, ch, de := pipe.Diff(generated(r.tree), generated(final)); len(cr)+len(ch)+len(de) > 0 {
		c.Fail("", cs, "%s after the failure a clean run does not reach the files of the never-failed run: created=%v changed=%v deleted=%v", label, cr, ch, de)
	}
	c.Nontrivial(fmt.Sprintf("%+v", cs))
}

// torn gengo.sum: a package may only be skipped if the torn file still holds a
// COMPLETE line for it whose hash equals the directory's current hash.
func checkAfterTorn(c *core.Ctx, cs Case, dir string, torn string) {
	complete := map[string]string{}
	lines := strings.Split(torn, "\n")
	for _, l := range lines {
		// a cut-off last piece counts as well: a truncated hash can never equal the full current
		// hash and a truncated path is another key, so equality below already implies completeness
		if f := strings.Fields(l); len(f) >= 2 {
			complete[f[0]] = f[1]
		}
	}
	maySkip := map[string]bool{}
	for _, p := range []string{"a", "b", "c"} {
		h, err := dirhash.HashDir(filepath.Join(dir, p), "", dirhash.Hash1)
		if err == nil && complete[modPath+"/"+p] == h {
			maySkip[p] = true
		}
	}
	o := pipe.Exec(spec(dir, true, nil))
	c.Trans(1)
	if !o.OK() {
		c.Fail("", cs, "run on a torn gengo.sum (%d bytes) failed: %+v", cs.Torn, o)
		return
	}
	inv := map[string]bool{}
	for _, p := range pkgsOf(o) {
		inv[p] = true
	}
	c.State(fmt.Sprintf("torn|%d complete lines|%d skipped", len(complete), 3-len(inv)))
	for _, p := range []string{"a", "b", "c"} {
		if !inv[p] && !maySkip[p] {
			c.Fail("", cs, "gengo.sum torn after %d bytes (%q): package %s was skipped although its line is incomplete or stale", cs.Torn, torn, p)
		}
	}
	c.Nontrivial(fmt.Sprintf("torn%d", cs.Torn))
}

func run(c *core.Ctx) {
	c.Bound("fault_kinds", kinds)
	c.Bound("module", "a (imports b), b, c; 2 types each; generators g1, g2 (g2 registers one Defer per type); entrypoints a, c")
	nPoints := 0
	for _, all := range []bool{true, false} {
		r := reference(c, all)
		if r == nil {
			return
		}
		pts := faultPoints(r)
		nPoints += len(pts)
		for _, p := range pts {
			for _, k := range kinds {
				if !c.Next() {
					continue
				}
				f := p
				f.Kind = k
				cs := Case{All: all, Faults: []Fault{f}}
				checkCase(c, cs)
				c.Sample(cs)
			}
		}
		if c.Next() {
			checkCase(c, Case{All: all, Mode: "files-written-sum-not-saved"})
		}
		// the same fault points in a module that has no gengo.sum (yet / any more)
		noSumKinds := []string{"error", "goexit", "kill"}
		if c.Thorough() {
			noSumKinds = kinds
		}
		for _, p := range pts {
			for _, k := range noSumKinds {
				if !c.Next() {
					continue
				}
				f := p
				f.Kind = k
				checkCase(c, Case{All: all, Faults: []Fault{f}, NoSum: true})
				if k != "goexit" {
					// and with Force set on the faulty run (regenerating whatever the cache says is no licence to save)
					checkCase(c, Case{All: all, Faults: []Fault{f}, Force: true})
				}
			}
		}
	}
	c.Bound("fault_points", nPoints)
	// torn gengo.sum: every prefix
	if r := reference(c, true); r != nil {
		n := len(r.tree["gengo.sum"])
		c.Bound("torn_sum_prefixes", n+1)
		step := 1
		if !c.Thorough() {
			step = 3
		}
		for k := 0; k <= n; k += step {
			if !c.Next() {
				continue
			}
			checkCase(c, Case{All: true, Mode: "torn", Torn: k})
		}
		c.Bound("torn_sum_prefix_step", step)
	}
	// depth-2 fault sequences
	if c.Thorough() {
		r := reference(c, true)
		pts := faultPoints(r)
		k2 := []string{"error", "unparseable", "kill"}
		c.Bound("depth2_fault_kinds", k2)
		for _, p1 := range pts {
			for _, ka := range k2 {
				for _, p2 := range pts {
					for _, kb := range k2 {
						if !c.Next() {
							continue
						}
						f1, f2 := p1, p2
						f1.Kind, f2.Kind = ka, kb
						checkCase(c, Case{All: true, Faults: []Fault{f1, f2}})
					}
				}
			}
		}
	}
}

func replay(c *core.Ctx, raw json.RawMessage) {
	var cs Case
	if err := json.Unmarshal(raw, &cs); err != nil {
		c.Internal("bad case: %v", err)
		return
	}
	checkCase(c, cs)
}

func init() {
	core.Register(&core.Prop{
		ID: "C02", Level: "fault_enumeration", Run: run, Replay: replay,
		Rule: "one fault of each kind {returned error, unparseable rendering in 6 forms (missing name, unterminated string, NUL byte, statement at top level, garbage after valid declarations, stray closing brace), panic, runtime.Goexit, os.Exit, SIGKILL} at EVERY GenerateType call index and EVERY Defer callback index (taken from the log of the never-failed run) x All on/off, from a state with previous outputs and a gengo.sum produced by the real system; plus the crash state 'all files written, sum not saved' and every (quick: every 3rd) torn prefix of the new gengo.sum; thorough: all depth-2 sequences of {error, unparseable, SIGKILL} faults. Every case is non-trivial (a fault is injected); states = distinct (kind, in-defer, All, failing package, error?) classes",
		Assumptions: []string{
			"process death = SIGKILL / os.Exit in a child process, panic and runtime.Goexit unwinding in-process; no power-loss (fsync) model",
			"the single write(2) of sumfile.Save can be cut at any byte",
		},
	})
}
