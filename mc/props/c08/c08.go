// Package c08: the gengo.sum cache never skips a package whose directory
// changed. Explicit-state search over histories of {edit/add/delete a file,
// add a non-Go file, add/remove a dangling symlink, delete / corrupt gengo.sum,
// run All, run All+Force, run All with a failing generator, run All on a
// subset of entrypoints, run without All}; states are real module trees
// (deduplicated by their exact content hash), every run transition is executed
// by the real pipeline and judged against hashes the harness computes itself.
package c08

import (
	"encoding/json"
	"fmt"
	"io"
	"os"
	"path/filepath"
	"sort"
	"strings"

	"golang.org/x/mod/sumdb/dirhash"
	"verif/mc/core"
	"verif/mc/pipe"
)

const modPath = "x.io/test"

func module(rootPkg bool) pipe.Tree {
	t := pipe.Tree{
		"go.mod": pipe.GoMod(modPath, "1.24"),
		"a/a.go": "package a\n\nimport \"x.io/test/b\"\n\ntype A1 struct{ B b.B1 }\n",
		"b/b.go": "package b\n\ntype B1 struct{}\n",
		"c/c.go": "package c\n\ntype C1 struct{}\n",
	}
	if rootPkg {
		t["root.go"] = "package test\n\ntype Root struct{}\n"
	}
	if nested {
		// a package below another package: the hash of c covers c/inner, c/inner has an entry of its own
		t["c/inner/inner.go"] = "package inner\n\ntype I1 struct{}\n"
	}
	return t
}

var ops = []string{
	"edit:a", "edit:b", "edit:c", "extra:b", "note:c", "symlink:b", "rmgen:a", "editgen:c",
	// files of the root package's own directory that sort after "gengo.sum" (no-ops without a root package)
	"edit:root", "note:root",
	// a file of the package below package c (no-op without that package)
	"edit:inner",
	"rmsum", "sum:truncate", "sum:garbage", "sum:swap", "sum:crlf",
	"run:all", "run:force", "run:fail-b", "run:subset-c", "run:nonall",
	// an All run in whose course (after the load, before Execute) the source of package a is edited: the run judges
	// and records a by its hash AT LOAD TIME, so the next run sees a changed directory
	"run:late-edit-a",
	// ONE Executor executed twice, gengo.sum deleted in between (a driver that keeps its context: watch mode): the
	// second Execute finds no gengo.sum and regenerates everything
	"run:twice-rmsum",
}

func isRun(op string) bool { return strings.HasPrefix(op, "run:") }

// applyEdit applies a non-run operation to a tree (toggles, so the space stays finite).
func applyEdit(t pipe.Tree, op string) pipe.Tree {
	t = t.Clone()
	toggle := func(k, v string) {
		if _, ok := t[k]; ok {
			delete(t, k)
		} else {
			t[k] = v
		}
	}
	switch {
	case op == "note:root":
		if _, ok := t["root.go"]; ok {
			toggle("notes.txt", "a note next to the module file\n")
		}
	case strings.HasPrefix(op, "edit:"):
		p := op[5:]
		f := p + "/" + p + ".go"
		if p == "root" {
			if _, ok := t["root.go"]; !ok {
				return t
			}
			f = "root.go"
		}
		if p == "inner" {
			if _, ok := t["c/inner/inner.go"]; !ok {
				return t
			}
			f = "c/inner/inner.go"
		}
		const mark = "\n// edited\nvar Edited = 1\n"
		if strings.HasSuffix(t[f], mark) {
			t[f] = strings.TrimSuffix(t[f], mark)
		} else {
			t[f] += mark
		}
	case op == "rmgen:a":
		// the user deletes a generated file: a deleted file in the package directory like any other
		delete(t, "a/zz_generated.g1.go")
	case op == "editgen:c":
		if g, ok := t["c/zz_generated.g1.go"]; ok && !strings.HasSuffix(g, "// touched by hand\n") {
			t["c/zz_generated.g1.go"] = g + "// touched by hand\n"
		}
	case op == "extra:b":
		toggle("b/extra.go", "package b\n\ntype Extra int\n")
	case op == "note:c":
		toggle("c/note.txt", "a note\n")
	case op == "symlink:b":
		toggle("b/.#lock", pipe.Symlink("does-not-exist"))
	case op == "rmsum":
		delete(t, "gengo.sum")
	case strings.HasPrefix(op, "sum:"):
		s, ok := t["gengo.sum"]
		if !ok {
			return t
		}
		lines := strings.Split(strings.TrimSuffix(s, "\n"), "\n")
		switch op {
		case "sum:truncate":
			if len(s) > 20 {
				t["gengo.sum"] = s[:len(s)-20]
			}
		case "sum:garbage":
			t["gengo.sum"] = "garbage\n\n" + s + "x.io/test/zz\nx.io/test/a\n"
		case "sum:swap":
			if len(lines) >= 2 {
				f0, f1 := strings.Fields(lines[0]), strings.Fields(lines[1])
				if len(f0) >= 2 && len(f1) >= 2 {
					lines[0], lines[1] = f0[0]+" "+f1[1], f1[0]+" "+f0[1]
					t["gengo.sum"] = strings.Join(lines, "\n") + "\n"
				}
			}
		case "sum:crlf":
			if !strings.Contains(s, "\r") {
				t["gengo.sum"] = strings.ReplaceAll(s, "\n", "\r\n")
			}
		}
	}
	return t
}

type Case struct {
	Root        bool     `json:"package_in_module_root"`
	RootFirst   bool     `json:"root_package_listed_first,omitempty"`
	Ops         []string `json:"history"`
	SameProcess bool     `json:"whole_history_in_one_process_and_directory,omitempty"`
	Nested      bool     `json:"package_c_inner_below_package_c,omitempty"`
	TwoModules  bool     `json:"run_spans_two_modules,omitempty"`
}

var nested bool // layout variant of the current exploration: package c/inner below package c

// (the layout flag travels with every recorded case)
func (cs Case) MarshalJSON() ([]byte, error) {
	type plain Case
	p := plain(cs)
	p.Nested = nested
	return json.Marshal(p)
}

var rootFirst bool // layout variant of the current exploration: "." listed before the other entrypoints

func specFor(dir, op string, root bool) pipe.Spec {
	s := pipe.Spec{Dir: dir, All: true, Entrypoints: []string{"./a", "./c"},
		Globals: map[string][]string{"gengo:g1": {"true"}},
		Gens:    []pipe.GenScript{{Name: "g1", Default: pipe.Action{Render: "var V_$T_$G = 1\n"}}}}
	if nested {
		s.Entrypoints = append(s.Entrypoints, "./c/inner")
	}
	if root {
		if rootFirst {
			s.Entrypoints = append([]string{"."}, s.Entrypoints...)
		} else {
			s.Entrypoints = append(s.Entrypoints, ".")
		}
	}
	switch op {
	case "run:force":
		s.Force = true
	case "run:fail-b":
		s.Gens[0].ByType = map[string]pipe.Action{modPath + "/b.B1": {Ret: "error"}}
	case "run:subset-c":
		s.Entrypoints = []string{"./c"}
	case "run:nonall":
		s.All = false
	}
	return s
}

// lateEdit: the file operations that turn t into applyEdit(t, op).
func lateEdit(t pipe.Tree, op string) []pipe.FileOp {
	n := applyEdit(t, op)
	var out []pipe.FileOp
	for k, v := range n {
		if old, ok := t[k]; !ok || old != v {
			out = append(out, pipe.FileOp{Path: k, Content: v})
		}
	}
	for k := range t {
		if _, ok := n[k]; !ok {
			out = append(out, pipe.FileOp{Path: k, Remove: true})
		}
	}
	sort.Slice(out, func(i, j int) bool { return out[i].Path < out[j].Path })
	return out
}

func localPkgs(op string, root bool) []string {
	ps := localPkgsFlat(op, root)
	if nested && op != "run:subset-c" {
		ps = append(ps, "c/inner")
	}
	return ps
}

func localPkgsFlat(op string, root bool) []string {
	switch op {
	case "run:subset-c":
		return []string{"c"}
	case "run:nonall":
		if root {
			return []string{"", "a", "c"}
		}
		return []string{"a", "c"}
	}
	if root {
		return []string{"", "a", "b", "c"}
	}
	return []string{"a", "b", "c"}
}

func pkgPath(p string) string {
	if p == "" {
		return modPath
	}
	return modPath + "/" + p
}

// the harness' own reading of gengo.sum (lines of exactly `path hash`, fields separated by blanks)
func parseSum(s string) map[string]string {
	m := map[string]string{}
	for _, l := range strings.Split(s, "\n") {
		f := strings.Fields(l)
		if len(f) >= 2 {
			m[f[0]] = f[1]
		}
	}
	return m
}

type stepResult struct {
	tree    pipe.Tree
	invoked map[string]bool
	failed  bool
}

// step executes one run transition on a materialised copy of the tree and checks it.
func step(c *core.Ctx, cs Case, t pipe.Tree, op string) (pipe.Tree, map[string]bool, bool) {
	dir := pipe.TempDir("c08")
	defer os.RemoveAll(dir)
	if err := pipe.WriteTree(dir, t); err != nil {
		c.Internal("%v", err)
		return nil, nil, false
	}
	return stepDir(c, cs, dir, t, op)
}

// stepDir executes one run transition in dir, which holds exactly the tree t.
func stepDir(c *core.Ctx, cs Case, dir string, t pipe.Tree, op string) (pipe.Tree, map[string]bool, bool) {
	// pre-run facts, computed by the harness itself
	sumBefore, hasSum := t["gengo.sum"]
	recorded := map[string]string{}
	if hasSum {
		recorded = parseSum(sumBefore)
	}
	current := map[string]string{}
	hashable := map[string]bool{}
	allPkgs := []string{"", "a", "b", "c"}
	if nested {
		allPkgs = append(allPkgs, "c/inner")
	}
	for _, p := range allPkgs {
		h, err := hashDir(filepath.Join(dir, p), p == "")
		if err == nil {
			current[p] = h
			hashable[p] = true
		}
	}
	spec := specFor(dir, op, cs.Root)
	if op == "run:late-edit-a" {
		spec.AfterLoad = lateEdit(t, "edit:a")
	}
	if op == "run:twice-rmsum" {
		spec.Again = &pipe.Again{Before: []pipe.FileOp{{Path: "gengo.sum", Remove: true}}}
	}
	o := pipe.Exec(spec)
	if op == "run:twice-rmsum" && o.OK() {
		if o.Err2 != "" {
			c.Fail("", cs, "history %v, then one Executor executed twice with gengo.sum deleted in between: the second Execute failed: %s", cs.Ops, o.Err2)
			return nil, nil, false
		}
		second := map[string]bool{}
		for _, e := range o.Log[o.SecondFrom:] {
			if e.Kind == "type" {
				second[strings.TrimPrefix(strings.TrimPrefix(e.Pkg, modPath), "/")] = true
			}
		}
		for _, p := range localPkgs(op, cs.Root) {
			if !second[p] {
				c.Fail("", cs, "history %v, then one Executor executed twice with gengo.sum deleted in between: the second Execute skipped package %q as cached although there is no gengo.sum", cs.Ops, p)
			}
		}
		o.Log = o.Log[:o.SecondFrom] // the first Execute is judged like every other run below
	}
	if os.Getenv("C08_DEBUG") != "" {
		fmt.Fprintf(os.Stderr, "DEBUG %s: %+v\n", op, o)
	}
	c.Trans(1)
	after, err := pipe.ReadTree(dir)
	if err != nil {
		c.Internal("%v", err)
		return nil, nil, false
	}
	invoked := map[string]bool{}
	for _, e := range o.Log {
		if e.Kind == "type" {
			invoked[strings.TrimPrefix(strings.TrimPrefix(e.Pkg, modPath), "/")] = true
		}
	}
	desc := fmt.Sprintf("history %v, then %s", cs.Ops, op)
	if o.LoadErr != "" || o.Panic != "" {
		c.Fail("", cs, "%s: load=%q panic=%q", desc, o.LoadErr, o.Panic)
		return nil, nil, false
	}
	locals := localPkgs(op, cs.Root)
	if op == "run:fail-b" {
		// packages are processed in sorted order and the run stops at b
		want := !(hasSum && recorded[pkgPath("b")] == current["b"] && hashable["b"])
		if want != (o.Err != "") {
			c.Fail(classUnhashable(hashable), cs, "%s: generator fails in b; b must be regenerated=%v but Execute error=%q", desc, want, o.Err)
		}
		if o.Err != "" && after["gengo.sum"] != sumBefore {
			c.Fail("", cs, "%s: failed run rewrote gengo.sum", desc)
		}
		if _, ok := after["gengo.sum"]; o.Err != "" && ok != hasSum {
			c.Fail("", cs, "%s: failed run created/removed gengo.sum", desc)
		}
		if o.Err != "" {
			return after, invoked, true
		}
	} else if o.Err != "" {
		c.Fail("", cs, "%s: Execute failed: %s", desc, o.Err)
		return nil, nil, false
	}
	for _, p := range locals {
		mustSkip := false
		maySkip := false
		if spec.All && !spec.Force && hasSum && hashable[p] {
			if r, ok := recorded[pkgPath(p)]; ok && r == current[p] {
				maySkip = true
				mustSkip = true
			}
		}
		if invoked[p] && mustSkip {
			c.Fail("", cs, "%s: package %q regenerated although Force is off and its recorded hash equals its directory hash", desc, p)
		}
		if !invoked[p] && !maySkip {
			why := "recorded hash differs from the directory hash"
			if !hasSum {
				why = "gengo.sum is missing"
			} else if _, ok := recorded[pkgPath(p)]; !ok {
				why = "gengo.sum has no (complete) entry for it"
			}
			if !hashable[p] {
				why = "its directory cannot be hashed"
			}
			if spec.Force {
				why = "Force is set"
			}
			if !spec.All {
				why = "All is off (no cache)"
			}
			c.Fail(classUnhashableFor(p, hashable), cs, "%s: package %q was skipped as cached although %s (recorded=%q current=%q)", desc, p, why, recorded[pkgPath(p)], current[p])
		}
	}
	for p := range invoked {
		found := false
		for _, l := range locals {
			if l == p {
				found = true
			}
		}
		if !found {
			c.Fail("", cs, "%s: package %q is not part of this run but was generated", desc, p)
		}
	}
	if spec.All {
		// the saved file: sorted `path hash` lines of this run's local packages with the pre-run hashes
		got, ok := after["gengo.sum"]
		if !ok {
			c.Fail("", cs, "%s: successful All run left no gengo.sum", desc)
		} else {
			var want strings.Builder
			sort.Strings(locals)
			okAll := true
			for _, p := range locals {
				if !hashable[p] {
					okAll = false
					continue
				}
				want.WriteString(pkgPath(p) + " " + current[p] + "\n")
			}
			if okAll && got != want.String() {
				c.Fail("", cs, "%s: gengo.sum is\n%s--- want (sorted path/hash of the run's packages at load time) ---\n%s", desc, got, want.String())
			}
			// reading back yields the same mapping (for hashable packages)
			back := parseSum(got)
			for _, p := range locals {
				if hashable[p] && back[pkgPath(p)] != current[p] {
					c.Fail("", cs, "%s: gengo.sum read back gives %q for %s, want the load-time hash %q", desc, back[pkgPath(p)], pkgPath(p), current[p])
				}
				if !hashable[p] && back[pkgPath(p)] != "" {
					c.Fail("", cs, "%s: gengo.sum records hash %q for %s whose directory cannot be hashed", desc, back[pkgPath(p)], pkgPath(p))
				}
			}
			lines := strings.Split(strings.TrimSuffix(got, "\n"), "\n")
			if !sort.StringsAreSorted(lines) {
				c.Fail("", cs, "%s: gengo.sum lines are not sorted:\n%s", desc, got)
			}
		}
	} else if after["gengo.sum"] != sumBefore {
		c.Fail("", cs, "%s: run without All touched gengo.sum", desc)
	}
	return after, invoked, true
}

// hashDir is the harness' definition of a package's directory hash: dirhash.Hash1
// over all files below the directory; for the module root gengo.sum itself is left
// out (the only reading under which "the recorded hash equals the directory hash"
// and "repeated runs converge" can both hold for a package in the module root).
func hashDir(dir string, isRoot bool) (string, error) {
	files, err := dirhash.DirFiles(dir, "")
	if err != nil {
		return "", err
	}
	if isRoot {
		var kept []string
		for _, f := range files {
			if f != "gengo.sum" {
				kept = append(kept, f)
			}
		}
		files = kept
	}
	return dirhash.Hash1(files, func(name string) (io.ReadCloser, error) {
		return os.Open(filepath.Join(dir, name))
	})
}

func classUnhashable(hashable map[string]bool) string {
	if !hashable["b"] {
		return "C08-unhashable-dir-treated-as-cached"
	}
	return ""
}

// unhashable: the directory of package p (recursively) holds a dangling symlink
func unhashable(t pipe.Tree, p string) bool {
	for k, v := range t {
		if strings.HasPrefix(v, pipe.Symlink("")) && (p == "" || strings.HasPrefix(k, p+"/")) {
			return true
		}
	}
	return false
}

func repeat(s string, n int) []string {
	out := make([]string, n)
	for i := range out {
		out[i] = s
	}
	return out
}

func classUnhashableFor(p string, hashable map[string]bool) string {
	if !hashable[p] {
		return "C08-unhashable-dir-treated-as-cached"
	}
	return ""
}

// converge: repeating "run All" with no edits must reach, within 4 runs, a run
// that invokes nothing (for hashable packages) and changes nothing.
func converge(c *core.Ctx, cs Case, t pipe.Tree) {
	cur := t
	base := cs
	for i := 0; i < 4; i++ {
		cs = Case{Root: base.Root, RootFirst: base.RootFirst, Ops: append(append([]string{}, base.Ops...), repeat("run:all", i)...)}
		next, inv, ok := step(c, cs, cur, "run:all")
		if !ok {
			return
		}
		quiet := true
		for p := range inv {
			if !unhashable(cur, p) {
				quiet = false
			}
		}
		if quiet && next.Hash() == cur.Hash() {
			c.Count("converged_after_runs_"+fmt.Sprint(i), 1)
			return
		}
		cur = next
	}
	class := ""
	if cs.Root {
		class = "C08-root-package-never-converges"
	}
	c.Fail(class, cs, "history %v: 4 consecutive `run All` on unchanged inputs never reach a run that regenerates nothing and changes nothing", cs.Ops)
}

type explorer struct {
	c       *core.Ctx
	root    bool
	depth   int
	seen    map[string]int // tree hash -> max remaining depth explored
	convSet map[string]bool
	convMax int
}

func (e *explorer) visit(t pipe.Tree, hist []string, remaining int) {
	h := t.Hash()
	if r, ok := e.seen[h]; ok && r >= remaining {
		return
	}
	first := false
	if _, ok := e.seen[h]; !ok {
		first = true
	}
	e.seen[h] = remaining
	cs := Case{Root: e.root, RootFirst: rootFirst, Ops: append([]string{}, hist...)}
	if first {
		e.c.State(fmt.Sprint(e.root) + h)
		e.c.Eval(1)
		if len(hist) >= 2 {
			e.c.Nontrivial(h)
		}
		if len(hist) <= e.convMax && !e.convSet[h] {
			e.convSet[h] = true
			converge(e.c, cs, t)
		}
	}
	if remaining == 0 {
		return
	}
	for _, op := range ops {
		var next pipe.Tree
		if isRun(op) {
			var ok bool
			next, _, ok = step(e.c, cs, t, op)
			if !ok {
				continue
			}
			e.c.Trace(1)
		} else {
			next = applyEdit(t, op)
			if next.Hash() == h {
				continue // no-op (e.g. corrupting a missing sum file)
			}
		}
		e.visit(next, append(hist, op), remaining-1)
	}
}

func run(c *core.Ctx) {
	depth := c.Pick(3, 4)
	c.Bound("operations", ops)
	c.Bound("max_history_length", depth)
	c.Bound("layouts", []string{"packages a (imports b), b, c in sub-directories", "the same plus a package in the module root, listed last", "the same, root package listed first", "the first layout plus package c/inner below package c"})
	for li, root := range []bool{false, true, true, false} {
		rootFirst = li == 2
		nested = li == 3
		d := depth
		if root || nested {
			d = c.Pick(2, 3)
		}
		// shard on the first two operations
		for _, op1 := range ops {
			for _, op2 := range ops {
				if !c.Next() {
					continue
				}
				e := &explorer{c: c, root: root, depth: d, seen: map[string]int{}, convSet: map[string]bool{}, convMax: c.Pick(2, 3)}
				t0 := module(root)
				cs := Case{Root: root, RootFirst: rootFirst}
				// replay the 2-op prefix
				t := t0
				ok := true
				hist := []string{}
				for _, op := range []string{op1, op2} {
					cs.Ops = hist
					if isRun(op) {
						var n pipe.Tree
						n, _, ok = step(c, cs, t, op)
						if !ok {
							break
						}
						t = n
					} else {
						t = applyEdit(t, op)
					}
					hist = append(hist, op)
				}
				if !ok {
					continue
				}
				if op1 == ops[0] && op2 == ops[0] {
					e.visit(t0, nil, 0) // the initial state itself (convergence from the empty cache)
				}
				if op2 == ops[0] {
					t1 := t0
					if isRun(op1) {
						t1, _, _ = step(c, Case{Root: root, RootFirst: rootFirst}, t0, op1)
					} else {
						t1 = applyEdit(t0, op1)
					}
					if t1 != nil {
						e.visit(t1, []string{op1}, 0)
					}
				}
				e.visit(t, hist, d-2)
			}
		}
	}
	nested, rootFirst = false, false
	// one run over two modules
	checkTwoModules(c, c.Pick(3, 4))
	c.Bound("two_module_histories", fmt.Sprintf("all histories of length <= %d over {run, run with Force, add/remove a file in the package of the replaced module}", c.Pick(3, 4)))
	c.Sample(Case{Ops: []string{"run:all", "symlink:b", "run:all", "edit:b", "run:all"}})
	runHistories(c, c.Pick(4, 5))
}

// ---------------------------------------------------------------- histories inside ONE process and ONE directory
//
// The search above materialises every state in a fresh directory, which decides
// the property for state that lives in files. State hidden in the process (a
// memo keyed by directory, a reused universe) only shows when a whole history
// runs in one process with edits applied in place; those histories are executed
// by a fresh child process each, over a smaller operation alphabet.

var histOps = []string{"edit:a", "edit:b", "extra:b", "run:all", "run:force", "run:subset-c"}

// with operations on gengo.sum itself (a shorter bound keeps the number of child processes down)
var histOpsSum = []string{"edit:a", "rmsum", "sum:swap", "run:all", "run:force"}

// syncTree makes dir hold exactly want, rewriting changed files IN PLACE.
func syncTree(dir string, want pipe.Tree) error {
	have, err := pipe.ReadTree(dir)
	if err != nil {
		return err
	}
	for k := range have {
		if _, ok := want[k]; !ok {
			if err := os.Remove(filepath.Join(dir, k)); err != nil {
				return err
			}
		}
	}
	delta := pipe.Tree{}
	for k, v := range want {
		if have[k] != v {
			delta[k] = v
		}
	}
	return pipe.WriteTree(dir, delta)
}

func histWorker(args []string) int {
	var cs Case
	if err := json.NewDecoder(os.Stdin).Decode(&cs); err != nil {
		return 2
	}
	c := core.NewWorkerCtx("C08", "quick")
	runHistoryHere(c, cs)
	if err := c.WriteResult(os.Stdout); err != nil {
		return 2
	}
	return 0
}

// runHistoryHere executes the whole history in this process, in one directory.
func runHistoryHere(c *core.Ctx, cs Case) {
	dir := pipe.TempDir("c08h")
	defer os.RemoveAll(dir)
	t := module(cs.Root)
	if err := pipe.WriteTree(dir, t); err != nil {
		c.Internal("%v", err)
		return
	}
	var hist []string
	for _, op := range cs.Ops {
		sub := Case{Root: cs.Root, Ops: hist, SameProcess: true}
		if isRun(op) {
			next, _, ok := stepDir(c, sub, dir, t, op)
			if !ok {
				return
			}
			t = next
			c.Trace(1)
		} else {
			t = applyEdit(t, op)
			if err := syncTree(dir, t); err != nil {
				c.Internal("%v", err)
				return
			}
		}
		hist = append(hist, op)
	}
}

func checkHistory(c *core.Ctx, cs Case) {
	c.Eval(1)
	in, _ := json.Marshal(cs)
	out, errb, err := core.RunWorker("c08hist", in)
	if err != nil {
		c.Internal("history worker: %v %s", err, errb)
		return
	}
	if err := c.Absorb(out); err != nil {
		c.Internal("history worker output: %v", err)
	}
	c.Nontrivial("hist" + fmt.Sprint(cs.Ops))
}

func runHistories(c *core.Ctx, maxLen int) {
	c.Bound("same_process_history_ops", histOps)
	c.Bound("same_process_history_max_len", maxLen)
	c.Bound("same_process_history_ops_with_sum_file_operations", histOpsSum)
	c.Bound("same_process_history_with_sum_file_operations_len", maxLen)
	exploreHistories(c, histOps, maxLen)
	exploreHistories(c, histOpsSum, maxLen)
}

func exploreHistories(c *core.Ctx, histOps []string, maxLen int) {
	core.Explore(c, core.ExploreOpts{Bound: -1}, func(ch *core.Chooser, _ bool) {
		var ops []string
		runs := 0
		for i := 0; i < maxLen; i++ {
			k := ch.Choose(len(histOps))
			ops = append(ops, histOps[k])
			if isRun(histOps[k]) {
				runs++
			}
		}
		// a history is worth a process only if it ends in a run and has at least two runs
		if !isRun(ops[len(ops)-1]) || runs < 2 {
			return
		}
		if !c.Next() {
			return
		}
		checkHistory(c, Case{Ops: ops, SameProcess: true})
	})
}

func replay(c *core.Ctx, raw json.RawMessage) {
	var cs Case
	if err := json.Unmarshal(raw, &cs); err != nil {
		c.Internal("bad case: %v", err)
		return
	}
	if cs.TwoModules {
		twoModuleHistory(c, cs.Ops)
		return
	}
	rootFirst = cs.RootFirst
	nested = cs.Nested
	if cs.SameProcess {
		// the recorded history is a prefix; the failing step is one of the runs that follow it
		for _, op := range histOps {
			if isRun(op) {
				checkHistory(c, Case{Root: cs.Root, Ops: append(append([]string{}, cs.Ops...), op), SameProcess: true})
			}
		}
		return
	}
	t := module(cs.Root)
	hist := []string{}
	for _, op := range cs.Ops {
		if isRun(op) {
			n, _, ok := step(c, Case{Root: cs.Root, Ops: hist}, t, op)
			if !ok {
				return
			}
			t = n
		} else {
			t = applyEdit(t, op)
		}
		hist = append(hist, op)
	}
	// the failing step is one of the run operations (or convergence) from this state
	for _, op := range ops {
		if isRun(op) {
			step(c, cs, t, op)
		}
	}
	converge(c, cs, t)
}

func init() {
	core.RegisterWorker("c08hist", histWorker)
	core.Register(&core.Prop{
		ID: "C08", Level: "model_checking", Run: run, Replay: replay,
		Rule: "explicit-state search: states are real module trees deduplicated by exact content hash, transitions are the 18 listed operations (toggling edits of sources, non-Go files, a dangling symlink, deleting or hand-editing a GENERATED file, 5 manipulations of gengo.sum, 5 kinds of real runs), explored to the stated history length from the empty cache, in two layouts; every run transition is judged against the harness' own parse of gengo.sum and its own dirhash of each package directory (skip <=> not Force, entry present, recorded == current), the saved file against the expected sorted lines, and convergence of repeated `run All` is checked from every state up to the stated depth; additionally every history of exactly N operations (ending in a run, >=2 runs) over a 6-operation alphabet is executed inside ONE fresh child process and ONE directory with in-place edits (hidden process state); non-trivial = states reached by >=2 operations",
		Assumptions: []string{
			"identical trees have identical futures (the only other input, Go map order, is C04's subject)",
			"a directory that cannot be hashed (dangling symlink) is an environment fault: the package must never be skipped, its sum line is otherwise unconstrained and it is exempt from 'nothing is regenerated'",
		},
	})
}
