// Package c04: generation is deterministic and a second run is a fixed point.
// The map-iteration order of every range-over-map site of the library is owned
// by the seam (policy vectors with a bounded number of deviating sites), and
// entrypoint orders/spellings and run counts are enumerated; all outputs must
// be byte-identical, the callback sequence identical, and re-running must
// change no generated file.
package c04

import (
	"encoding/json"
	"fmt"
	"os"
	"sort"
	"strings"

	"verif/mc/core"
	"verif/mc/pipe"
	"verif/mc/seamctl"
)

const modPath = "x.io/test"

func module() pipe.Tree {
	var a strings.Builder
	a.WriteString("// Package a is order sensitive on purpose.\n// +gengo:deepcopy\n// +gengo:runtimedoc\npackage a\n\nimport (\n\t\"" + modPath + "/b\"\n\t\"" + modPath + "/c\"\n\t\"" + modPath + "/d\"\n)\n\nvar _ d.F01\n\n")
	a.WriteString("// T is the package-level T.\ntype T struct {\n\t// B field\n\tB b.B\n\t// C field\n\tC c.C\n\t// M\n\t// of the thing (the first doc line is only the name)\n\tM map[string]int\n\tS []string\n}\n\n")
	a.WriteString("func generic[T any](t T) T { return t }\n\nfunc local() int {\n\ttype T struct{ L int }\n\ttype Z int\n\treturn T{}.L + int(Z(0))\n}\n\n")
	for i := 1; i <= 12; i++ {
		fmt.Fprintf(&a, "// T%02d is number %d.\ntype T%02d struct {\n\t// F doc\n\tF int\n\tG []int\n}\n\n", i, i, i)
	}
	a.WriteString("// Off is switched off but keeps a sub-option.\n// +gengo:g1=false\n// +gengo:g1:sub=v\n// +gengo:deepcopy=false\n// +gengo:deepcopy:interfaces=Object\ntype Off struct{ X int }\n\n")
	a.WriteString("// Opt and opt differ only in case (a sort that ignores case leaves their order to chance).\ntype Opt struct{ V []int }\n\ntype opt struct{ W map[string]int }\n\nvar _ opt\n\ntype ROUTE int\n\ntype Route int\n\ntype route int\n\nvar _ route\n\n")
	a.WriteString("// Sub has only a sub-option.\n// +gengo:g2:opt=1\ntype Sub struct{ X int }\n\ntype Alias = T\n")
	t := pipe.Tree{}
	// package d: many source files (the loader parses the files of a package concurrently) and one declaration for the
	// partialstruct generator, which looks its declaration up by position; the scripted generators are switched off
	// for it (they would pick up the generated type in the next run)
	t["d/d.go"] = "// Package d has many files.\n// +gengo:g1=false\n// +gengo:g2=false\n// +gengo:vm=false\n// +gengo:defaulter=false\n// +gengo:g=false\n// +gengo:gx=false\npackage d\n\nimport \"" + modPath + "/c\"\n\n// cView is a partial view of c.C.\n// +gengo:partialstruct\ntype cView c.C\n\nvar _ cView\n"
	for i := 1; i <= 11; i++ {
		t[fmt.Sprintf("d/f%02d.go", i)] = fmt.Sprintf("package d\n\n// F%02d lives in a file of its own.\ntype F%02d int\n", i, i)
	}
	for k, v := range (pipe.Tree{
		"go.mod":                 pipe.GoMod(modPath, "1.24"),
		"root.go":                "// Package test sits in the module root and imports nothing of the module.\n// +gengo:deepcopy\npackage test\n\n// Root doc\ntype Root struct{ V []int }\n",
		"a/a.go":                 a.String(),
		"a/zz_generated.old1.go": "package a\n\nvar StaleOne = 1\n",
		"a/zz_generated.old2.go": "package a\n\nvar StaleTwo = 1\n",
		"a/zz_generated.old3.go": "package a\n\nvar StaleThree = 1\n",
		// previous outputs of generator "g" (which will signal ErrIgnore: kept) and "gx" (which renders nothing: removed)
		"a/zz_generated.g.go":  "package a\n\nvar PreviousG = 1\n",
		"a/zz_generated.gx.go": "package a\n\nvar PreviousGX = 1\n",
		"b/b.go":               "// +gengo:deepcopy\n// +gengo:runtimedoc\npackage b\n\nimport \"" + modPath + "/c\"\n\n// B doc\ntype B struct {\n\t// C doc\n\tC c.C\n\tN Named\n}\n\ntype Named map[string]string\n\ntype B2 int\n",
		"c/c.go":               "// +gengo:deepcopy\npackage c\n\n// C doc\ntype C struct{ V []int }\n\ntype C2 string\n",
	}) {
		t[k] = v
	}
	return t
}

var clashing = []string{"x.io/a/util", "x.io/b/util", "y.io/util", "fmt", "foo/fmt", "k8s.io/api/core/v1", "k8s.io/apis/core/v1", "x/v2"}

// genOrder: 0 = scripted generators as listed, 1 = reversed (the generator SET is the same)
var genOrder int

func spec(dir string, entry []string, all bool) pipe.Spec {
	sp := specInOrder(dir, entry, all)
	if genOrder == 1 {
		for i, j := 0, len(sp.Gens)-1; i < j; i, j = i+1, j-1 {
			sp.Gens[i], sp.Gens[j] = sp.Gens[j], sp.Gens[i]
		}
	}
	sp.RealFirst = genOrder == 2
	sp.Base = outBase
	return sp
}

// outBase: OutputFileBaseName of the current execution ("" = the default, zz_generated)
var outBase string

func specInOrder(dir string, entry []string, all bool) pipe.Spec {
	return pipe.Spec{
		Dir: dir, Entrypoints: entry, All: all,
		Globals: map[string][]string{"gengo:g1": {"true"}, "gengo:vm": {"true"}, "gengo:defaulter": {"true"}, "gengo:g": {"true"}, "gengo:gx": {"true"}},
		Gens: []pipe.GenScript{
			// "g" signals ErrIgnore for one type and renders nothing; "gx" renders nothing at all
			{Name: "g", ByType: map[string]pipe.Action{modPath + "/a.T": {Ret: "ignore"}}},
			{Name: "gx"},
			{Name: "g1", Stateful: true, Default: pipe.Action{Render: "var V_$T_$G = 1\n", Imports: clashing, ImportsInOneTemplateFirst: true, DocOfFields: true, LocateSelf: true, Defers: []pipe.Action{{Render: "var D_$T_$G = 1\n"}}},
				// package c refers only to the SECOND member of each clashing pair: alone it gets the plain names
				ByType: map[string]pipe.Action{
					modPath + "/c.C":  {Render: "var V_$T_$G = 1\n", Imports: []string{"x.io/b/util", "foo/fmt", "k8s.io/apis/core/v1"}},
					modPath + "/c.C2": {Render: "var V_$T_$G = 1\n", Imports: []string{"x.io/b/util", "y.io/util"}},
				}},
			{Name: "g2", Default: pipe.Action{Render: "var V_$T_$G = 2\n", Imports: []string{"x.io/b/util", "x.io/a/util"}}},
			{Name: "vm"},
		},
		Real: []string{"runtimedoc", "deepcopy", "defaulter", "partialstruct"},
	}
}

type Case struct {
	Entry    []string       `json:"entrypoints"`
	All      bool           `json:"all"`
	Def      int            `json:"seam_default_policy"`
	Policy   map[string]int `json:"seam_policy_vector,omitempty"`
	Runs     int            `json:"consecutive_runs,omitempty"`
	Child    bool           `json:"fresh_process_per_run,omitempty"`
	GenOrder int            `json:"generator_order_1_scripted_reversed_2_repository_generators_first,omitempty"`
	// history variant: the first run fails with a generator error at this type
	FailFirstRunAt string `json:"first_run_fails_at_type,omitempty"`
	// OutputFileBaseName other than the default
	Base string `json:"output_file_base_name,omitempty"`
}

type result struct {
	files map[string]string // generated files + gengo.sum
	calls string
}

func outputs(t pipe.Tree) map[string]string {
	out := map[string]string{}
	base := outBase
	if base == "" {
		base = "zz_generated"
	}
	for k, v := range t {
		if strings.Contains(k, "/"+base+".") || strings.HasPrefix(k, base+".") || k == "gengo.sum" {
			out[k] = v
		}
	}
	return out
}

func runOnce(c *core.Ctx, cs Case) (*result, bool) {
	dir := pipe.TempDir("c04")
	defer os.RemoveAll(dir)
	if err := pipe.WriteTree(dir, module()); err != nil {
		c.Internal("%v", err)
		return nil, false
	}
	seamctl.Set(cs.Def, cs.Policy)
	defer seamctl.Set(0, nil)
	genOrder = cs.GenOrder
	defer func() { genOrder = 0 }()
	var o pipe.Outcome
	if cs.Child {
		// a fresh process (default map order): the references are computed this way, so that every
		// in-process execution is also compared across a process restart
		var err error
		if o, _, _, err = pipe.ExecChild(spec(dir, cs.Entry, cs.All)); err != nil {
			c.Internal("child: %v", err)
			return nil, false
		}
	} else {
		o = pipe.Exec(spec(dir, cs.Entry, cs.All))
	}
	c.Trans(1)
	c.Trace(1)
	if !o.OK() {
		c.Fail("", cs, "run failed: load=%q err=%q panic=%q", o.LoadErr, o.Err, o.Panic)
		return nil, false
	}
	t, _ := pipe.ReadTree(dir)
	// gengo.sum contents do not depend on the scratch directory name (hashes are over relative names)
	return &result{files: outputs(t), calls: canonCalls(o, "type") + "\n--\n" + canonCalls(o, "alias") + "\n--\n" + canonCalls(o, "defer")}, true
}

// canonCalls: the callbacks of one kind, packages in the order they were processed, inside a package grouped
// by generator NAME (so that listing the same generators in another order gives the same text), inside a
// generator in the order they happened.
func canonCalls(o pipe.Outcome, kind string) string {
	pkgIdx := map[string]int{}
	type ev struct {
		pkg int
		gen string
		s   string
	}
	var evs []ev
	for _, e := range o.Log {
		if e.Kind != kind {
			continue
		}
		if _, ok := pkgIdx[e.Pkg]; !ok {
			pkgIdx[e.Pkg] = len(pkgIdx)
		}
		evs = append(evs, ev{pkgIdx[e.Pkg], e.Gen, e.Gen + ":" + e.Pkg + "." + e.Type})
	}
	sort.SliceStable(evs, func(i, j int) bool {
		if evs[i].pkg != evs[j].pkg {
			return evs[i].pkg < evs[j].pkg
		}
		return evs[i].gen < evs[j].gen
	})
	var out []string
	for _, e := range evs {
		out = append(out, e.s)
	}
	return strings.Join(out, "\n")
}

func diffFiles(a, b map[string]string) string {
	var parts []string
	for k, v := range a {
		if w, ok := b[k]; !ok {
			parts = append(parts, k+" missing")
		} else if w != v {
			parts = append(parts, k+" differs:\n--- reference ---\n"+v+"--- this execution ---\n"+w)
		}
	}
	for k := range b {
		if _, ok := a[k]; !ok {
			parts = append(parts, k+" extra")
		}
	}
	sort.Strings(parts)
	return strings.Join(parts, "\n")
}

var refs = map[string]*result{}

func reference(c *core.Ctx, group string, entry []string, all bool) *result {
	if r, ok := refs[group]; ok {
		return r
	}
	r, ok := runOnce(c, Case{Entry: entry, All: all, Child: true})
	if !ok {
		return nil
	}
	refs[group] = r
	return r
}

func checkAgainst(c *core.Ctx, cs Case, group string, refEntry []string) {
	c.Eval(1)
	ref := reference(c, group, refEntry, cs.All)
	if ref == nil {
		return
	}
	r, ok := runOnce(c, cs)
	if !ok {
		return
	}
	c.State(group + "|" + fmt.Sprint(cs.Def, len(cs.Policy)))
	c.Nontrivial(fmt.Sprint(cs))
	if d := diffFiles(ref.files, r.files); d != "" {
		c.Fail("", cs, "outputs differ from the reference execution (entrypoints %v, default map order policy, no deviation):\n%s", refEntry, d)
	}
	if ref.calls != r.calls {
		c.Fail("", cs, "the sequence of generator callbacks differs from the reference execution:\n--- reference ---\n%s\n--- this execution ---\n%s", ref.calls, r.calls)
	}
	if len(ref.files) < 5 {
		c.Internal("vacuous: reference produced only %d output files", len(ref.files))
	}
}

// fixed point: consecutive runs on the result of the previous run
func checkRuns(c *core.Ctx, cs Case) {
	c.Eval(1)
	dir := pipe.TempDir("c04r")
	defer os.RemoveAll(dir)
	if err := pipe.WriteTree(dir, module()); err != nil {
		c.Internal("%v", err)
		return
	}
	seamctl.Set(cs.Def, cs.Policy)
	defer seamctl.Set(0, nil)
	outBase = cs.Base
	defer func() { outBase = "" }()
	var prev map[string]string
	for i := 1; i <= cs.Runs; i++ {
		var o pipe.Outcome
		if cs.Child {
			var err error
			o, _, _, err = pipe.ExecChild(spec(dir, cs.Entry, cs.All))
			if err != nil {
				c.Internal("child: %v", err)
				return
			}
		} else {
			o = pipe.Exec(spec(dir, cs.Entry, cs.All))
		}
		c.Trans(1)
		if !o.OK() {
			c.Fail("", cs, "run %d failed: load=%q err=%q panic=%q", i, o.LoadErr, o.Err, o.Panic)
			return
		}
		t, _ := pipe.ReadTree(dir)
		cur := outputs(t)
		delete(cur, "gengo.sum") // the cache file legitimately settles over the first runs (C08); generated files must not move
		if prev != nil {
			if d := diffFiles(prev, cur); d != "" {
				c.Fail("", cs, "run %d changed generated files although nothing else changed:\n%s", i, d)
				return
			}
		}
		prev = cur
	}
	c.State(fmt.Sprintf("runs|%v|%v|%d", cs.All, cs.Child, cs.Def))
	c.Nontrivial(fmt.Sprint("runs", cs))
}

// histories of consecutive runs must not depend on the order entrypoints are listed in: after run k
// every output INCLUDING gengo.sum is compared between the orders
func checkRunsAcrossOrders(c *core.Ctx, orders [][]string, runs int) {
	c.Eval(1)
	var ref []map[string]string
	for oi, entry := range orders {
		dir := pipe.TempDir("c04o")
		if err := pipe.WriteTree(dir, module()); err != nil {
			c.Internal("%v", err)
			os.RemoveAll(dir)
			return
		}
		for k := 0; k < runs; k++ {
			o := pipe.Exec(spec(dir, entry, true))
			c.Trans(1)
			if !o.OK() {
				c.Fail("", Case{Entry: entry, All: true, Runs: runs}, "run %d failed: load=%q err=%q panic=%q", k+1, o.LoadErr, o.Err, o.Panic)
				os.RemoveAll(dir)
				return
			}
			t, _ := pipe.ReadTree(dir)
			cur := outputs(t)
			if oi == 0 {
				ref = append(ref, cur)
			} else if d := diffFiles(ref[k], cur); d != "" {
				c.Fail("", Case{Entry: entry, All: true, Runs: runs}, "after run %d the outputs for entrypoint order %v differ from those for order %v:\n%s", k+1, entry, orders[0], d)
				os.RemoveAll(dir)
				return
			}
		}
		os.RemoveAll(dir)
	}
	c.State("orders-x-runs")
	c.Nontrivial(fmt.Sprint("orders", orders))
}

// a failed run in between must leave no trace: [run that fails in one package, 3 clean runs] ends in
// the same generated files and gengo.sum as [3 clean runs] on the same sources
func checkAfterFailure(c *core.Ctx, failAt string) {
	c.Eval(1)
	entry := []string{".", "./a", "./b", "./c"}
	cs := Case{Entry: entry, All: true, Runs: 4, FailFirstRunAt: failAt}
	final := func(fail bool) (map[string]string, bool) {
		dir := pipe.TempDir("c04f")
		defer os.RemoveAll(dir)
		if err := pipe.WriteTree(dir, module()); err != nil {
			c.Internal("%v", err)
			return nil, false
		}
		if fail {
			sp := spec(dir, entry, true)
			for gi := range sp.Gens {
				if sp.Gens[gi].Name == "g1" {
					bt := map[string]pipe.Action{failAt: {Ret: "error"}}
					for k, v := range sp.Gens[gi].ByType {
						if k != failAt {
							bt[k] = v
						}
					}
					sp.Gens[gi].ByType = bt
				}
			}
			o := pipe.Exec(sp)
			c.Trans(1)
			if o.Err == "" || o.LoadErr != "" || o.Panic != "" {
				c.Internal("the injected generator error at %s did not fail the run (err=%q load=%q panic=%q)", failAt, o.Err, o.LoadErr, o.Panic)
				return nil, false
			}
		}
		for k := 0; k < 3; k++ {
			o := pipe.Exec(spec(dir, entry, true))
			c.Trans(1)
			if !o.OK() {
				c.Fail("", cs, "clean run %d (after a failed one: %v) failed: load=%q err=%q panic=%q", k+1, fail, o.LoadErr, o.Err, o.Panic)
				return nil, false
			}
		}
		t, _ := pipe.ReadTree(dir)
		return outputs(t), true
	}
	ref, ok := final(false)
	if !ok {
		return
	}
	got, ok := final(true)
	if !ok {
		return
	}
	if d := diffFiles(ref, got); d != "" {
		c.Fail("", cs, "a run that failed at %s followed by 3 clean runs ends in other outputs than 3 clean runs alone:\n%s", failAt, d)
	}
	c.State("after-failure")
	c.Nontrivial("after-failure " + failAt)
}

// checkTwoModules: an All run whose entrypoints lie in two modules (a main module and a locally replaced one): every
// file of the tree - gengo.sum and WHERE it is written included - is the same for both orders of the entrypoints,
// under every global map-iteration policy, and after a second run.
func checkTwoModules(c *core.Ctx) {
	tree := pipe.Tree{
		"go.mod":          pipe.GoMod("alpha.io/a", "1.24") + "\nrequire beta v0.0.0\n\nreplace beta => ./legacy\n",
		"x/x.go":          "package x\n\nimport (\n\t\"alpha.io/a/z\"\n\t\"beta/y\"\n)\n\n// X uses one package of each module.\ntype X struct {\n\tZ z.Z\n\tY y.Y\n}\n",
		"z/z.go":          "package z\n\n// Z is local.\ntype Z struct{ V int }\n",
		"legacy/go.mod":   pipe.GoMod("beta", "1.22"),
		"legacy/y/y.go":   "package y\n\n// Y lives in the other module.\ntype Y struct{ W string }\n",
		"legacy/y2/y2.go": "package y2\n\nimport \"beta/y\"\n\n// Y2 too.\ntype Y2 struct{ Y y.Y }\n",
	}
	type tcase struct {
		Entry  []string `json:"entrypoints_two_modules"`
		Def    int      `json:"seam_default_policy"`
		Second bool     `json:"after_a_second_run,omitempty"`
	}
	run := func(entry []string, def int, runs int) (pipe.Tree, bool) {
		dir := pipe.TempDir("c04m")
		defer os.RemoveAll(dir)
		_ = pipe.WriteTree(dir, tree)
		seamctl.Set(def, nil)
		defer seamctl.Set(0, nil)
		for i := 0; i < runs; i++ {
			o := pipe.Exec(pipe.Spec{Dir: dir, Entrypoints: entry, All: true, Globals: map[string][]string{"gengo:g1": {"true"}},
				Gens: []pipe.GenScript{{Name: "g1", Default: pipe.Action{Render: "var V_$T_$G = 1\n"}}}})
			c.Trans(1)
			if !o.OK() {
				c.Fail("", tcase{entry, def, i > 0}, "All run over two modules failed: load=%q err=%q panic=%q", o.LoadErr, o.Err, o.Panic)
				return nil, false
			}
		}
		t, _ := pipe.ReadTree(dir)
		return t, true
	}
	orders := [][]string{{"./x", "beta/y2"}, {"beta/y2", "./x"}, {"./z", "beta/y", "./x"}, {"beta/y", "./x", "./z"}}
	for _, runs := range []int{1, 2} {
		refs := map[int]pipe.Tree{}
		for oi, entry := range orders {
			for d := 0; d < seamctl.NPolicies; d++ {
				c.Eval(1)
				t, ok := run(entry, d, runs)
				if !ok {
					return
				}
				group := oi / 2 // orders 0,1 select the same packages, and so do 2,3
				if ref, have := refs[group]; !have {
					refs[group] = t
				} else if cr, ch, de := pipe.Diff(ref, t); len(cr)+len(ch)+len(de) > 0 {
					c.Fail("", tcase{entry, d, runs == 2}, "%d All run(s) over two modules, entrypoints %v under map-order policy %d: the tree differs from the one of entrypoints %v under the default order: only here %v, changed %v, missing here %v", runs, entry, d, orders[group*2], cr, ch, de)
				}
			}
		}
	}
	c.Nontrivial("two-modules")
	c.Bound("two_module_all_runs", "entrypoint orders x every global map-order policy x 1 and 2 runs; whole tree compared, incl. where gengo.sum is written")
}

func run(c *core.Ctx) {
	if c.Next() {
		checkTwoModules(c)
	}
	sites := seamctl.Sites("")
	c.Bound("seam_available", seamctl.Available())
	c.Bound("seam_sites", sites)
	maxDev := c.Pick(2, 3)
	c.Bound("max_deviating_sites", maxDev)
	c.Bound("policies", []string{"ascending", "descending", "rotate-left", "rotate-right"})
	entryAll := []string{"./a", "./b", "./c"}
	// (i') the same generator SET listed in the reverse order (GetRegisteredGenerators hands them out in map order)
	for _, all := range []bool{false, true} {
		for _, d := range []int{0, 1} {
			for _, order := range []int{1, 2} {
				if (d == 0 || seamctl.Available()) && c.Next() {
					checkAgainst(c, Case{Entry: entryAll, All: all, Def: d, GenOrder: order}, fmt.Sprint("abc", all), entryAll)
				}
			}
		}
	}
	// (i) seam policy vectors
	if seamctl.Available() {
		for d := 1; d < seamctl.NPolicies; d++ {
			for _, all := range []bool{false, true} {
				if c.Next() {
					checkAgainst(c, Case{Entry: entryAll, All: all, Def: d}, fmt.Sprint("abc", all), entryAll)
				}
			}
		}
		vs := seamctl.Vectors(sites, maxDev)
		c.Bound("policy_vectors", len(vs))
		for _, v := range vs {
			if len(v) == 0 {
				continue
			}
			if !c.Next() {
				continue
			}
			checkAgainst(c, Case{Entry: entryAll, All: true, Policy: v}, "abctrue", entryAll)
		}
	} else {
		c.Cap("built without the seam overlay: map iteration order is Go's own random order, not owned")
	}
	// (ii) entrypoint orders and spellings
	spell := []string{"./a", "./b", "./c", modPath + "/a", "."}
	pkgOf := map[string]string{"./a": "a", "./b": "b", "./c": "c", modPath + "/a": "a", modPath + "/b": "b", ".": "."}
	n := 0
	core.Explore(c, core.ExploreOpts{Bound: -1}, func(ch *core.Chooser, _ bool) {
		var entry []string
		for i := 0; i < 3; i++ {
			k := ch.Choose(len(spell) + 1)
			if k == 0 {
				break
			}
			entry = append(entry, spell[k-1])
		}
		if len(entry) == 0 {
			return
		}
		n++
		set := map[string]bool{}
		for _, e := range entry {
			set[pkgOf[e]] = true
		}
		var ps, refEntry []string
		for p := range set {
			ps = append(ps, p)
		}
		sort.Strings(ps)
		for _, p := range ps {
			if p == "." {
				refEntry = append(refEntry, ".") // listed last in the reference execution
				continue
			}
			refEntry = append(refEntry, "./"+p)
		}
		sort.SliceStable(refEntry, func(i, j int) bool { return refEntry[i] != "." && refEntry[j] == "." })
		for _, all := range []bool{false, true} {
			if !c.Next() {
				continue
			}
			checkAgainst(c, Case{Entry: entry, All: all}, fmt.Sprint(ps, all), refEntry)
		}
	})
	c.Bound("entrypoint_sequences", n)
	// (iii) run counts, in-process and with a fresh process per run
	for _, all := range []bool{false, true} {
		for _, child := range []bool{false, true} {
			for d := 0; d < seamctl.NPolicies; d++ {
				if child && d > 0 {
					continue // the policy is process-local; a child runs with Go's own order
				}
				if !c.Next() {
					continue
				}
				checkRuns(c, Case{Entry: entryAll, All: all, Runs: 3, Child: child, Def: d})
				if d == 0 {
					// output files under another base name (a generator cannot see the name the caller chose) - one that makes
					// the generated files sort BEFORE the hand-written ones (their header comment is a package comment, too)
					checkRuns(c, Case{Entry: entryAll, All: all, Runs: 4, Child: child, Base: "0gen"})
					checkRuns(c, Case{Entry: []string{".", "./a", "./b", "./c"}, All: all, Runs: 4, Child: child})
				}
			}
		}
	}
	if c.Next() {
		checkRunsAcrossOrders(c, [][]string{{".", "./a", "./b", "./c"}, {"./a", "./b", "./c", "."}, {"./c", ".", "./b", "./a"}, {modPath, "./a", "./c"}}, 3)
	}
	for _, at := range []string{modPath + ".Root", modPath + "/a.T", modPath + "/a.T07", modPath + "/b.B", modPath + "/c.C"} {
		if c.Next() {
			checkAfterFailure(c, at)
		}
	}
	c.Sample(Case{Entry: []string{modPath + "/b", "./a", "./a"}, All: true})
	c.Sample(Case{Entry: entryAll, All: true, Policy: map[string]int{"pkg/gengo/context.go:363": 1}})
}

func replay(c *core.Ctx, raw json.RawMessage) {
	if strings.Contains(string(raw), "entrypoints_two_modules") {
		checkTwoModules(c) // (the comparison needs the whole group)
		return
	}
	var cs Case
	if err := json.Unmarshal(raw, &cs); err != nil {
		c.Internal("bad case: %v", err)
		return
	}
	if cs.FailFirstRunAt != "" {
		checkAfterFailure(c, cs.FailFirstRunAt)
		return
	}
	if cs.Runs > 0 && len(cs.Entry) > 0 && cs.All && !cs.Child && cs.Def == 0 && len(cs.Policy) == 0 && (cs.Entry[0] != "./a" || len(cs.Entry) != 3) {
		checkRunsAcrossOrders(c, [][]string{{"./a", "./b", "./c", "."}, cs.Entry}, cs.Runs)
		return
	}
	if cs.Runs > 0 {
		checkRuns(c, cs)
		return
	}
	set := map[string]bool{}
	for _, e := range cs.Entry {
		if e == "." {
			set["."] = true
			continue
		}
		set[strings.TrimPrefix(strings.TrimPrefix(e, modPath+"/"), "./")] = true
	}
	var ps, refEntry []string
	for p := range set {
		ps = append(ps, p)
	}
	sort.Strings(ps)
	for _, p := range ps {
		if p == "." {
			continue
		}
		refEntry = append(refEntry, "./"+p)
	}
	if set["."] {
		refEntry = append(refEntry, ".")
	}
	checkAgainst(c, cs, fmt.Sprint(ps, cs.All), refEntry)
}

func init() {
	core.Register(&core.Prop{
		ID: "C04", Level: "model_checking", Run: run, Replay: replay,
		Rule: "one order-sensitive module (package-level T + type parameter T + function-local T, 15 documented types, a type switched off that keeps a sub-option, aliases, 3 packages importing each other, 3 stale outputs, 8 imports with clashing last segments) with 8 generators (stateful scripted with Defer, second scripted, one that signals ErrIgnore and one that renders nothing - both with previous outputs -, map-literal/multi-argument template generator, runtimedoc, deepcopy, defaulter), also listed in the reverse order. (i) every map-iteration policy vector over all range-over-map sites of the library with <=2 (thorough <=3) deviating sites x 3 non-default policies, plus each policy applied globally; (ii) every entrypoint sequence of length <=3 over 5 spellings (relative dirs, an import path, the module-root package '.', duplicates) x All on/off, compared inside its group of equal package sets; (iii) 3 consecutive runs in-process (each global policy) and with a fresh process per run, and 3-run histories under 4 entrypoint orders (root package first / last / in the middle / by import path) whose outputs incl. gengo.sum are compared after every run; histories that start with a run failing in one of 5 places followed by 3 clean runs vs 3 clean runs alone. Oracle: all generated files and gengo.sum byte-identical to the reference execution (which runs in a fresh process), identical callback sequence, later runs change no generated file. Every execution is non-trivial; states = distinct (group, policy) classes",
		Assumptions: []string{
			"map orders are bounded to ascending/descending/rotations per site with a bounded number of deviating sites, not all n! orders",
			"sync.Map.Range in pkgExecute (order in which finished files are written) is not owned: files are independent of one another",
		},
	})
}
