// Package c13: the loaded universe mirrors the type checker's view of each
// package. Synthetic packages enumerated over a declaration-feature grammar and
// the real dependency closure of github.com/octohelm/gengo/... are loaded with
// the real gengotypes.Load and every accessor table is compared with go/types'
// own scope/method/import data — under every map-iteration policy vector of the
// loader's range-over-map sites when built with the seam.
package c13

import (
	"encoding/json"
	"fmt"
	"go/token"
	"go/types"
	"os"
	"path/filepath"
	"sort"
	"strconv"
	"strings"

	gengotypes "github.com/octohelm/gengo/pkg/types"
	"verif/mc/core"
	"verif/mc/pipe"
	"verif/mc/seamctl"
)

const modPath = "x.io/test"

const nBits = 8

var featureNames = []string{
	"function-local type named like a package-level type",
	"type parameter named like a package-level type",
	"function-local const named like a package-level const",
	"generic type with value and pointer receivers",
	"grouped declarations, blank names and init",
	"method-local type named like a package-level type",
	"imports dep1 (which imports dep2)",
	"interface type and embedded struct with promoted methods",
}

func source(name string, bits int) string {
	has := func(i int) bool { return bits&(1<<i) != 0 }
	var b strings.Builder
	b.WriteString("package " + name + "\n\n")
	if has(6) {
		b.WriteString("import (\n\t\"" + modPath + "/dep1\"\n\t\"strings\"\n)\n\nvar _ = dep1.V\nvar _ = strings.ToLower\n\n")
	}
	b.WriteString("type T struct{ A int }\n\nfunc (T) Val() {}\nfunc (*T) Ptr() {}\nfunc (T) Val2() {}\nfunc (*T) Ptr2() {}\nfunc (*T) Ptr3() {}\nfunc (T) Val3() {}\n\nconst C = 1\n\nfunc F() int { return C }\n\nvar V = 2\n\n")
	if has(0) {
		b.WriteString("func local() int {\n\ttype T struct{ L string }\n\ttype OnlyLocal int\n\tvar x OnlyLocal\n\treturn len(T{}.L) + int(x)\n}\n\n")
		// a function-local INTERFACE named like a package-level type that has methods (interface methods are the
		// only function-local methods there are)
		b.WriteString("func localIface() {\n\ttype T interface {\n\t\tFlush() error\n\t\tClose() error\n\t\tVal()\n\t}\n\tvar _ T\n}\n\n")
		if has(3) {
			b.WriteString("func localIfaceG() {\n\ttype G interface {\n\t\tZap()\n\t\tGet() int\n\t}\n\tvar _ G\n}\n\n")
		}
	}
	if has(1) {
		b.WriteString("func generic[T any, U comparable](t T, u U) T { return t }\n\n")
	}
	if has(2) {
		b.WriteString("func lconst() int {\n\tconst C = 5\n\tconst OnlyLocalConst = 6\n\treturn C + OnlyLocalConst\n}\n\n")
	}
	if has(3) {
		b.WriteString("type G[X any] struct{ V X }\n\nfunc (g G[X]) Get() X { return g.V }\nfunc (g *G[X]) Set(v X) { g.V = v }\n\ntype GI = G[int]\n\nvar _ G[string]\n\n")
	}
	if has(4) {
		b.WriteString("type (\n\tGrp1 int\n\tGrp2 string\n\t_    bool\n)\n\nconst (\n\tK1 = iota\n\tK2\n\t_\n)\n\nfunc init() {}\n\nfunc init() {}\n\nfunc _() {}\n\nvar _ = 1\n\n")
	}
	if has(5) {
		b.WriteString("func (t T) WithLocal() int {\n\ttype T int\n\ttype F string\n\tconst V = 3\n\treturn int(T(1)) + len(F(\"\")) + V\n}\n\n")
	}
	if has(7) {
		b.WriteString("type I interface {\n\tM()\n\tfmtStringer\n}\n\ntype fmtStringer interface{ String() string }\n\ntype E struct{ T }\n\nfunc (E) Own() {}\n\n")
	}
	return b.String()
}

func synthetic() pipe.Tree {
	t := pipe.Tree{
		// one dependency comes from a module under a `replace` directive (a local directory): its packages
		// have a module whose directory is not below the main module and whose path is not modPath
		"go.mod":                   pipe.GoMod(modPath, "1.24") + "\nrequire rep.io/lib v0.0.0\n\nreplace rep.io/lib => ./_replaced/lib\n",
		"_replaced/lib/go.mod":     pipe.GoMod("rep.io/lib", "1.22"),
		"_replaced/lib/lib.go":     "package lib\n\nimport \"rep.io/lib/sub\"\n\n// T is a type of the replaced module.\ntype T struct{ S sub.S }\n\nfunc (T) M() {}\n\nfunc (*T) PM() {}\n\nconst C = 1\n\nfunc F() T { return T{} }\n",
		"_replaced/lib/sub/sub.go": "package sub\n\ntype S int\n\nfunc (S) String() string { return \"\" }\n\nvar V S\n\nfunc G() {}\n",
		"dep4/dep4.go":             "package dep4\n\nimport (\n\t\"rep.io/lib\"\n\t\"rep.io/lib/sub\"\n)\n\nvar L lib.T\n\nvar S sub.S\n",
		"dep1/dep1.go":             "package dep1\n\nimport \"" + modPath + "/dep2\"\n\nvar V = dep2.W\n\ntype T int\n",
		"dep2/dep2.go":             "package dep2\n\nimport \"" + modPath + "/dep3\"\n\nvar W = dep3.X\n",
		// packages with cgo files: the files the type checker sees are translations in the build cache
		"cg/only/only.go":   "package only\n\n// #include <stdlib.h>\nimport \"C\"\n\n// Handle wraps a C pointer.\ntype Handle struct{ p *C.char }\n\nfunc (h *Handle) Free() { C.free(nil) }\n\nconst Max = 3\n\nfunc New() *Handle { return &Handle{} }\n",
		"cg/mixed/plain.go": "package mixed\n\n// Plain is declared in a file without cgo.\ntype Plain struct{ N int }\n\nfunc (Plain) Val() {}\n",
		"cg/mixed/cgo.go":   "package mixed\n\n// #include <stdlib.h>\nimport \"C\"\n\n// Wrapped is declared in a cgo file.\ntype Wrapped struct{ p *C.char }\n\nfunc Release() { C.free(nil) }\n",
		"dep3/dep3.go":      "package dep3\n\nvar X = 1\n\nfunc f() { type T int }\n\n// the package declares some predeclared names itself\ntype error interface{ Error() string }\n\nconst true = 1 == 1\n\nfunc len(x string) int { return 0 }\n",
	}
	for bits := 0; bits < 1<<nBits; bits++ {
		name := fmt.Sprintf("k%03d", bits)
		t["p/"+name+"/"+name+".go"] = source(name, bits)
		if bits%4 == 1 {
			// test files and constraint-excluded files are not part of the package
			t["p/"+name+"/"+name+"_test.go"] = "package " + name + "\n\ntype OnlyInTest int\n\nfunc onlyInTestFunc() {}\n\nconst OnlyInTestConst = 1\n"
			t["p/"+name+"/x_test.go"] = "package " + name + "_test\n\ntype OnlyInExtTest int\n"
			t["p/"+name+"/ignored.go"] = "//go:build ignore\n\npackage " + name + "\n\ntype OnlyInIgnored int\n"
		}
	}
	return t
}

type Case struct {
	Corpus string         `json:"corpus"` // synthetic | real
	Pkg    string         `json:"package"`
	Policy map[string]int `json:"seam_policy_vector,omitempty"`
	Def    int            `json:"seam_default_policy"`
}

// checkUniverse compares every package of the loaded universe with go/types.
func checkUniverse(c *core.Ctx, corpus string, u *gengotypes.Universe, pkgPaths []string, def int, pol map[string]int, only string) {
	for _, path := range pkgPaths {
		if only != "" && path != only {
			continue
		}
		if path == "unsafe" {
			continue // no source, no syntax: not a loadable package in the property's sense
		}
		p := u.Package(path)
		cs := Case{Corpus: corpus, Pkg: path, Policy: pol, Def: def}
		c.Eval(1)
		c.Trans(6)
		if p == nil {
			c.Fail("", cs, "Universe.Package(%q) is nil", path)
			continue
		}
		scope := p.Pkg().Scope()
		firstKind, firstAnswer := "", ""
		if i := strings.Index(corpus, "-first:"); i >= 0 {
			firstKind = corpus[i+len("-first:"):]
			firstAnswer = askAbout(firstKind, u, p)
		}
		// predeclared (universe) names are not members of the package unless it declares them itself
		for _, n := range types.Universe.Names() {
			c.Trans(1)
			o := scope.Lookup(n)
			_, isType := o.(*types.TypeName)
			_, isConst := o.(*types.Const)
			_, isFunc := o.(*types.Func)
			if got := p.Type(n); (got != nil) != isType || (got != nil && got != o) {
				c.Fail("", cs, "%s: Type(%q) = %v, the package scope holds %v", path, n, got, o)
			}
			if got := p.Constant(n); (got != nil) != isConst || (got != nil && got != o) {
				c.Fail("", cs, "%s: Constant(%q) = %v, the package scope holds %v", path, n, got, o)
			}
			if got := p.Function(n); (got != nil) != isFunc || (got != nil && got != o) {
				c.Fail("", cs, "%s: Function(%q) = %v, the package scope holds %v", path, n, got, o)
			}
		}
		for _, n := range []string{"OnlyInTest", "OnlyInExtTest", "OnlyInIgnored"} {
			if p.Type(n) != nil || p.Types()[n] != nil {
				c.Fail("", cs, "%s lists the type %s, which is declared in a test file / a file excluded by its build constraint", path, n)
			}
		}
		if p.Function("onlyInTestFunc") != nil || p.Constant("OnlyInTestConst") != nil {
			c.Fail("", cs, "%s lists a function or constant declared in a test file", path)
		}
		if u.Package(path+"_test") != nil || u.Package(path+".test") != nil {
			c.Fail("", cs, "the universe holds a test variant of %s", path)
		}
		nScope := 0
		// tables == scope
		wantT, wantC, wantF := map[string]types.Object{}, map[string]types.Object{}, map[string]types.Object{}
		for _, n := range scope.Names() {
			if n == "_" {
				continue
			}
			switch o := scope.Lookup(n).(type) {
			case *types.TypeName:
				wantT[n] = o
			case *types.Const:
				wantC[n] = o
			case *types.Func:
				if n != "init" {
					wantF[n] = o
				}
			}
			nScope++
		}
		cmp := func(kind string, want map[string]types.Object, got map[string]types.Object, lookup func(string) types.Object) {
			for n, o := range want {
				g, ok := got[n]
				if !ok {
					c.Fail(classTables(kind), cs, "%s: %s() lacks the package-scope %s %q", path, kind, strings.ToLower(kind[:len(kind)-1]), n)
				} else if g != o {
					c.Fail(classTables(kind), cs, "%s: %s()[%q] is %v at %v, not the package-scope object at %v", path, kind, n, g, p.Position(g.Pos()), p.Position(o.Pos()))
				}
				if l := lookup(n); l != o {
					c.Fail(classTables(kind), cs, "%s: %s(%q) is not Scope().Lookup(%q)", path, kind[:len(kind)-1], n, n)
				}
			}
			for n, g := range got {
				if n == "_" || n == "init" {
					continue
				}
				if _, ok := want[n]; !ok {
					c.Fail(classTables(kind), cs, "%s: %s() lists %q (%v at %v), which is not a package-scope declaration", path, kind, n, g, p.Position(g.Pos()))
				}
			}
		}
		gotT, gotC, gotF := map[string]types.Object{}, map[string]types.Object{}, map[string]types.Object{}
		for n, o := range p.Types() {
			gotT[n] = o
		}
		for n, o := range p.Constants() {
			gotC[n] = o
		}
		for n, o := range p.Functions() {
			gotF[n] = o
		}
		cmp("Types", wantT, gotT, func(n string) types.Object {
			if o := p.Type(n); o != nil {
				return o
			}
			return nil
		})
		cmp("Constants", wantC, gotC, func(n string) types.Object {
			if o := p.Constant(n); o != nil {
				return o
			}
			return nil
		})
		cmp("Functions", wantF, gotF, func(n string) types.Object {
			if o := p.Function(n); o != nil {
				return o
			}
			return nil
		})
		// a name that is declared only locally must not resolve
		for _, n := range []string{"OnlyLocal", "OnlyLocalConst", "X", "U"} {
			if scope.Lookup(n) == nil {
				if p.Type(n) != nil || p.Constant(n) != nil {
					c.Fail(classTables("Types"), cs, "%s: Type/Constant(%q) resolves although the package scope has no such name", path, n)
				}
			}
		}
		// methods
		nMeth := 0
		for n, o := range wantT {
			tn := o.(*types.TypeName)
			named, ok := tn.Type().(*types.Named)
			if !ok || tn.IsAlias() {
				continue
			}
			if _, isIface := named.Underlying().(*types.Interface); isIface {
				continue // "declared methods" of an interface type: statement silent
			}
			var all, val []string
			for i := 0; i < named.NumMethods(); i++ {
				m := named.Method(i)
				all = append(all, m.Name())
				if _, ptr := m.Type().(*types.Signature).Recv().Type().(*types.Pointer); !ptr {
					val = append(val, m.Name())
				}
				nMeth++
			}
			gotAll := methodNames(p.MethodsOf(named, true))
			gotVal := methodNames(p.MethodsOf(named, false))
			sort.Strings(all)
			sort.Strings(val)
			cls := ""
			if named.TypeParams() != nil {
				cls = "C13-methods-of-generic-type-empty"
			}
			if fmt.Sprint(all) != fmt.Sprint(gotAll) {
				c.Fail(cls, cs, "%s: MethodsOf(%s, true) = %v, declared methods are %v", path, n, gotAll, all)
			}
			if fmt.Sprint(val) != fmt.Sprint(gotVal) {
				c.Fail(cls, cs, "%s: MethodsOf(%s, false) = %v, value-receiver methods are %v", path, n, gotVal, val)
			}
			// every sequence of 3 calls over {true,false} returns the same answers (an accessor must not
			// disturb the table it reads from)
			for seq := 0; seq < 8; seq++ {
				for k := 0; k < 3; k++ {
					ptr := seq&(1<<k) != 0
					got := methodNames(p.MethodsOf(named, ptr))
					want := val
					if ptr {
						want = all
					}
					if fmt.Sprint(got) != fmt.Sprint(want) {
						c.Fail(cls, cs, "%s: call %d of the sequence %03b (1 = with pointer receivers) MethodsOf(%s, %v) = %v, want %v", path, k+1, seq, n, ptr, got, want)
					}
				}
			}
			// identity, not only names
			for _, m := range p.MethodsOf(named, true) {
				found := false
				for i := 0; i < named.NumMethods(); i++ {
					if named.Method(i) == m || named.Method(i).Origin() == m.Origin() {
						found = true
					}
				}
				if !found {
					c.Fail(cls, cs, "%s: MethodsOf(%s) returns %v, which is not a declared method object of the type", path, n, m)
				}
			}
		}
		// imports
		wantImp := map[string]bool{}
		for _, f := range p.Files() {
			for _, im := range f.Imports {
				ip, _ := strconv.Unquote(im.Path.Value)
				if ip != "C" && ip != "unsafe" {
					wantImp[ip] = true
				}
			}
		}
		gotImp := p.Imports()
		for ip := range wantImp {
			ipkg, ok := gotImp[ip]
			switch {
			case !ok:
				c.Fail("", cs, "%s: Imports() lacks %q", path, ip)
			case ipkg == nil:
				c.Fail("C13-imports-nil-entries", cs, "%s: Imports()[%q] is nil", path, ip)
			case ipkg != u.Package(ip):
				// std packages import their vendored dependencies under the path written in the source
				// ("golang.org/x/crypto/...") while the package is "vendor/golang.org/x/crypto/...": compare
				// with the package the type checker resolved the import to
				resolved := ""
				for _, tp := range p.Pkg().Imports() {
					if tp.Path() == "vendor/"+ip || strings.HasSuffix(tp.Path(), "/vendor/"+ip) {
						resolved = tp.Path()
					}
				}
				if resolved == "" || ipkg != u.Package(resolved) {
					c.Fail("", cs, "%s: Imports()[%q] is not Universe.Package(%q)", path, ip, ip)
				}
			}
		}
		for ip := range gotImp {
			if !wantImp[ip] && ip != "unsafe" && ip != "C" {
				c.Fail("", cs, "%s: Imports() lists %q, which no file of the package imports", path, ip)
			}
		}
		// location (module packages only)
		if m := p.Module(); m != nil && len(p.Files()) > 0 && strings.HasPrefix(corpus, "synthetic") || (p.Module() != nil && strings.HasPrefix(path, "github.com/octohelm/gengo")) {
			func() {
				// a location query that panics is an answer too: a wrong one
				defer func() {
					if x := recover(); x != nil {
						c.Fail("", cs, "%s: a location query (LocateInPackage / SourceDir) about this package panicked: %v", path, x)
					}
				}()
				locationChecks(c, cs, u, p, scope, path)
			}()
		}
		if firstKind != "" {
			if again := askAbout(firstKind, u, p); again != firstAnswer {
				c.Fail("C13-answer-depends-on-what-was-asked-before", cs, "%s: %s, asked as the very first question about the package after loading, answered\n%s\nasked again after every other accessor was used it answers\n%s", path, firstKind, firstAnswer, again)
			}
		}
		c.State(fmt.Sprintf("%s|t%d c%d f%d m%d i%d", corpus, len(wantT), len(wantC), len(wantF), nMeth, len(wantImp)))
		if len(wantT)+len(wantC)+len(wantF) > 0 {
			c.Nontrivial(fmt.Sprint(corpus, path, def, pol))
		}
	}
}

func locationChecks(c *core.Ctx, cs Case, u *gengotypes.Universe, p gengotypes.Package, scope *types.Scope, path string) {
	dirs := map[string]bool{}
	for _, f := range p.Files() {
		fn := p.FileSet().File(f.FileStart).Name()
		if strings.HasSuffix(fn, ".go") && !strings.Contains(fn, "go-build") {
			dirs[filepath.Dir(fn)] = true
		}
		if strings.Contains(fn, "go-build") {
			continue // a cgo translation in the build cache: not a file of the package's directory
		}
		if lp := u.LocateInPackage(f.Package); lp != p {
			got := "<nil>"
			if lp != nil {
				got = lp.Pkg().Path()
			}
			c.Fail("", cs, "%s: LocateInPackage(pos in %s) = %s", path, fn, got)
		}
	}
	// positions anywhere in the files: the first and the last byte of every file, every package-scope object
	for _, f := range p.Files() {
		if strings.Contains(p.FileSet().File(f.FileStart).Name(), "go-build") {
			continue
		}
		for _, pos := range []token.Pos{f.FileStart, f.FileEnd - 1, f.End() - 1} {
			if lp := u.LocateInPackage(pos); lp != p {
				c.Fail("", cs, "%s: LocateInPackage(%s) is not the package", path, p.FileSet().Position(pos))
			}
		}
	}
	for _, n := range scope.Names() {
		if o := scope.Lookup(n); o.Pos().IsValid() {
			if strings.Contains(p.FileSet().Position(o.Pos()).Filename, "go-build") {
				continue // an object cgo made up (_Cgo_*, _Ctype_*): declared in no file of the package's directory
			}
			c.Trans(1)
			if lp := u.LocateInPackage(o.Pos()); lp != p {
				c.Fail("", cs, "%s: LocateInPackage(position of %s) is not the package", path, n)
			}
		}
	}
	if m := p.Module(); m != nil && strings.HasPrefix(path, modPath+"/cg/") {
		// (the harness wrote these packages itself: it knows where they are whatever files the loader parsed)
		if want := filepath.Join(m.Dir, strings.TrimPrefix(path, m.Path)); p.SourceDir() != want {
			c.Fail("", cs, "%s (a package with cgo files): SourceDir() = %q, the package is in %q", path, p.SourceDir(), want)
		}
	}
	if len(dirs) == 1 {
		for d := range dirs {
			if p.SourceDir() != d {
				c.Fail("", cs, "%s: SourceDir() = %q, its files are in %q", path, p.SourceDir(), d)
			}
		}
	}
}

// firstQueryKinds: the accessor that is asked FIRST about every package of a freshly loaded universe
// (corpus "synthetic-first:<kind>"); its answers are compared with what the same accessor says once
// everything else was asked (an answer must not depend on what was asked before)
var firstQueryKinds = []string{"MethodsOf", "Types", "Constants", "Functions", "Type", "Constant", "Function", "Imports", "Doc", "Comment", "SourceDir", "LocateInPackage"}

func askAbout(kind string, u *gengotypes.Universe, p gengotypes.Package) (out string) {
	defer func() {
		if x := recover(); x != nil {
			out = fmt.Sprintf("PANIC: %v", x)
		}
	}()
	scope := p.Pkg().Scope()
	var b strings.Builder
	keys := func(n int, name func(i int) string) {
		var ks []string
		for i := 0; i < n; i++ {
			ks = append(ks, name(i))
		}
		sort.Strings(ks)
		b.WriteString(strings.Join(ks, ","))
	}
	switch kind {
	case "Types":
		var ks []string
		for k := range p.Types() {
			ks = append(ks, k)
		}
		keys(len(ks), func(i int) string { return ks[i] })
	case "Constants":
		var ks []string
		for k := range p.Constants() {
			ks = append(ks, k)
		}
		keys(len(ks), func(i int) string { return ks[i] })
	case "Functions":
		var ks []string
		for k := range p.Functions() {
			ks = append(ks, k)
		}
		keys(len(ks), func(i int) string { return ks[i] })
	case "Imports":
		var ks []string
		for k := range p.Imports() {
			ks = append(ks, k)
		}
		keys(len(ks), func(i int) string { return ks[i] })
	case "SourceDir":
		b.WriteString(p.SourceDir())
	default:
		for _, n := range scope.Names() {
			o := scope.Lookup(n)
			switch kind {
			case "MethodsOf":
				if tn, ok := o.(*types.TypeName); ok && !tn.IsAlias() {
					if named, ok := tn.Type().(*types.Named); ok {
						fmt.Fprintf(&b, "%s:%v/%v;", n, methodNames(p.MethodsOf(named, true)), methodNames(p.MethodsOf(named, false)))
					}
				}
			case "Type":
				fmt.Fprintf(&b, "%s:%v;", n, p.Type(n) != nil)
			case "Constant":
				fmt.Fprintf(&b, "%s:%v;", n, p.Constant(n) != nil)
			case "Function":
				fmt.Fprintf(&b, "%s:%v;", n, p.Function(n) != nil)
			case "Doc":
				if o.Pos().IsValid() {
					tags, doc := p.Doc(o.Pos())
					fmt.Fprintf(&b, "%s:%v|%q;", n, len(tags), doc)
				}
			case "Comment":
				if o.Pos().IsValid() {
					fmt.Fprintf(&b, "%s:%q;", n, p.Comment(o.Pos()))
				}
			case "LocateInPackage":
				if o.Pos().IsValid() {
					lp := u.LocateInPackage(o.Pos())
					fmt.Fprintf(&b, "%s:%v;", n, lp == p)
				}
			}
		}
	}
	return b.String()
}

func classTables(kind string) string {
	return "C13-tables-list-non-package-scope-objects"
}

func methodNames(ms []*types.Func) []string {
	var out []string
	for _, m := range ms {
		out = append(out, m.Name())
	}
	sort.Strings(out)
	return out
}

var synthDir string

func loadSynthetic(c *core.Ctx) (*gengotypes.Universe, []string) {
	if synthDir == "" {
		synthDir = pipe.TempDir("c13")
		if err := pipe.WriteTree(synthDir, synthetic()); err != nil {
			c.Internal("%v", err)
			return nil, nil
		}
	}
	u, err := gengotypes.Load([]string{"./..."}, gengotypes.WithDir(synthDir))
	if err != nil {
		c.Internal("load synthetic: %v", err)
		return nil, nil
	}
	var paths []string
	for bits := 0; bits < 1<<nBits; bits++ {
		paths = append(paths, fmt.Sprintf("%s/p/k%03d", modPath, bits))
	}
	paths = append(paths, modPath+"/dep1", modPath+"/dep2", modPath+"/dep3", modPath+"/dep4", "rep.io/lib", "rep.io/lib/sub", "strings", modPath+"/cg/only", modPath+"/cg/mixed")
	return u, paths
}

// twin: the same module (same module path, same sources) checked out in a SECOND directory and loaded in
// the same process after the first copy was loaded and queried; then the first universe is asked again.
func checkTwin(c *core.Ctx, def int, pol map[string]int, only string) {
	uA, paths := loadSynthetic(c)
	if uA == nil {
		return
	}
	checkUniverse(c, "synthetic-twin (first directory)", uA, paths, def, pol, only)
	dirB := pipe.TempDir("c13twin")
	defer os.RemoveAll(dirB)
	if err := pipe.WriteTree(dirB, synthetic()); err != nil {
		c.Internal("%v", err)
		return
	}
	uB, err := gengotypes.Load([]string{"./..."}, gengotypes.WithDir(dirB))
	if err != nil {
		c.Internal("load twin: %v", err)
		return
	}
	c.Trace(1)
	checkUniverse(c, "synthetic-twin (second directory, loaded after the first)", uB, paths, def, pol, only)
	checkUniverse(c, "synthetic-twin (first directory, asked again after the second was loaded)", uA, paths, def, pol, only)
}

func loadReal(c *core.Ctx) (*gengotypes.Universe, []string) {
	silence := silenceStdout()
	u, err := gengotypes.Load([]string{"github.com/octohelm/gengo/..."}, gengotypes.WithDir(core.RepoDir()))
	silence()
	if err != nil {
		c.Internal("load real closure: %v", err)
		return nil, nil
	}
	// all packages reachable: walk imports from the local ones
	seen := map[string]bool{}
	var paths []string
	var walk func(p gengotypes.Package)
	walk = func(p gengotypes.Package) {
		if p == nil || seen[p.Pkg().Path()] {
			return
		}
		seen[p.Pkg().Path()] = true
		paths = append(paths, p.Pkg().Path())
		for _, ip := range p.Pkg().Imports() {
			walk(u.Package(ip.Path()))
		}
	}
	for path := range u.LocalPkgPaths() {
		walk(u.Package(path))
	}
	sort.Strings(paths)
	return u, paths
}

// a second pinned corpus (thorough): std packages gengo itself does not reach
// the quick tier loads a small corpus that reaches GOROOT-vendored packages (net -> vendor/golang.org/x/net/...)
const stdSmallSource = `package corp

import _ "net"
`

var stdSmallDir string

func loadStdSmall(c *core.Ctx) (*gengotypes.Universe, []string) {
	if stdSmallDir == "" {
		stdSmallDir = pipe.TempDir("c13net")
		_ = pipe.WriteTree(stdSmallDir, pipe.Tree{"go.mod": pipe.GoMod("x.io/corp", "1.24"), "corp.go": stdSmallSource})
	}
	save := stdDir
	stdDir = stdSmallDir
	u, paths := loadStd(c)
	stdDir = save
	return u, paths
}

const stdCorpusSource = `package corp

import (
	_ "archive/tar"
	_ "compress/gzip"
	_ "crypto/tls"
	_ "database/sql"
	_ "encoding/xml"
	_ "go/doc"
	_ "html/template"
	_ "image/png"
	_ "math/big"
	_ "net/http"
	_ "net/rpc"
	_ "os/exec"
	_ "regexp"
	_ "testing"
	_ "text/tabwriter"
)
`

var stdDir string

func loadStd(c *core.Ctx) (*gengotypes.Universe, []string) {
	if stdDir == "" {
		stdDir = pipe.TempDir("c13std")
		_ = pipe.WriteTree(stdDir, pipe.Tree{"go.mod": pipe.GoMod("x.io/corp", "1.24"), "corp.go": stdCorpusSource})
	}
	silence := silenceStdout()
	u, err := gengotypes.Load([]string{"."}, gengotypes.WithDir(stdDir))
	silence()
	if err != nil {
		c.Internal("load std corpus: %v", err)
		return nil, nil
	}
	seen := map[string]bool{}
	var paths []string
	var walk func(p gengotypes.Package)
	walk = func(p gengotypes.Package) {
		if p == nil || seen[p.Pkg().Path()] {
			return
		}
		seen[p.Pkg().Path()] = true
		paths = append(paths, p.Pkg().Path())
		for _, ip := range p.Pkg().Imports() {
			walk(u.Package(ip.Path()))
		}
	}
	for path := range u.LocalPkgPaths() {
		walk(u.Package(path))
	}
	sort.Strings(paths)
	return u, paths
}

func silenceStdout() func() {
	real := os.Stdout
	null, err := os.OpenFile(os.DevNull, os.O_WRONLY, 0)
	if err != nil {
		return func() {}
	}
	os.Stdout = null
	return func() { os.Stdout = real; null.Close() }
}

func run(c *core.Ctx) {
	defer func() {
		if synthDir != "" {
			os.RemoveAll(synthDir)
		}
		if stdDir != "" {
			os.RemoveAll(stdDir)
		}
		if stdSmallDir != "" {
			os.RemoveAll(stdSmallDir)
		}
	}()
	c.Bound("synthetic_feature_bits", featureNames)
	c.Bound("synthetic_packages", 1<<nBits)
	sites := seamctl.Sites("pkg/types/")
	c.Bound("seam_available", seamctl.Available())
	c.Bound("seam_sites", sites)
	type job struct {
		corpus string
		def    int
		pol    map[string]int
	}
	var jobs []job
	if seamctl.Available() {
		for d := 0; d < seamctl.NPolicies; d++ {
			jobs = append(jobs, job{"synthetic", d, nil}, job{"real", d, nil})
		}
		// vectors with <=1 (thorough <=2) deviating sites on the synthetic corpus
		for _, v := range seamctl.Vectors(sites, c.Pick(1, 2)) {
			if len(v) > 0 {
				jobs = append(jobs, job{"synthetic", 0, v})
			}
		}
		if c.Thorough() {
			for _, v := range seamctl.Vectors(sites, 1) {
				if len(v) > 0 {
					jobs = append(jobs, job{"real", 0, v})
				}
			}
			for d := 0; d < seamctl.NPolicies; d++ {
				jobs = append(jobs, job{"std", d, nil})
			}
		}
	} else {
		jobs = []job{{"synthetic", 0, nil}, {"real", 0, nil}}
	}
	jobs = append(jobs, job{"std-small", 0, nil}, job{"synthetic-twin", 0, nil})
	for _, k := range firstQueryKinds {
		jobs = append(jobs, job{"synthetic-first:" + k, 0, nil})
	}
	c.Bound("first_question_about_every_package_of_a_fresh_universe", firstQueryKinds)
	c.Bound("universe_loads", len(jobs))
	nReal := 0
	for _, j := range jobs {
		if !c.Next() {
			continue
		}
		seamctl.Set(j.def, j.pol)
		var u *gengotypes.Universe
		var paths []string
		if strings.HasPrefix(j.corpus, "synthetic-first:") {
			if u, paths := loadSynthetic(c); u != nil {
				c.Trace(1)
				checkUniverse(c, j.corpus, u, paths, j.def, j.pol, "")
			}
			continue
		}
		switch j.corpus {
		case "synthetic-twin":
			checkTwin(c, j.def, j.pol, "")
			continue
		case "synthetic":
			u, paths = loadSynthetic(c)
		case "std":
			u, paths = loadStd(c)
			c.Bound("std_corpus_packages", len(paths))
		case "std-small":
			u, paths = loadStdSmall(c)
			c.Bound("std_small_corpus_packages_closure_of_net", len(paths))
		default:
			u, paths = loadReal(c)
			nReal = len(paths)
		}
		if u == nil {
			continue
		}
		c.Trace(1)
		checkUniverse(c, j.corpus, u, paths, j.def, j.pol, "")
		if j.corpus == "real" {
			c.Bound("real_closure_packages", nReal)
		}
	}
	seamctl.Set(0, nil)
	c.Sample(Case{Corpus: "synthetic", Pkg: modPath + "/p/k255", Def: 1})
	c.Sample(Case{Corpus: "real", Pkg: "go/types", Def: 0})
}

func replay(c *core.Ctx, raw json.RawMessage) {
	var cs Case
	if err := json.Unmarshal(raw, &cs); err != nil {
		c.Internal("bad case: %v", err)
		return
	}
	defer func() {
		if synthDir != "" {
			os.RemoveAll(synthDir)
		}
	}()
	seamctl.Set(cs.Def, cs.Policy)
	var u *gengotypes.Universe
	var paths []string
	if strings.HasPrefix(cs.Corpus, "synthetic-twin") {
		checkTwin(c, cs.Def, cs.Policy, cs.Pkg)
		return
	}
	if strings.HasPrefix(cs.Corpus, "synthetic-first:") {
		if u, paths := loadSynthetic(c); u != nil {
			checkUniverse(c, cs.Corpus, u, paths, cs.Def, cs.Policy, cs.Pkg)
		}
		return
	}
	switch cs.Corpus {
	case "synthetic":
		u, paths = loadSynthetic(c)
	case "std":
		u, paths = loadStd(c)
		defer os.RemoveAll(stdDir)
	case "std-small":
		u, paths = loadStdSmall(c)
	default:
		u, paths = loadReal(c)
	}
	if u != nil {
		checkUniverse(c, cs.Corpus, u, paths, cs.Def, cs.Policy, cs.Pkg)
	}
}

func init() {
	core.Register(&core.Prop{
		ID: "C13", Level: "model_checking", Run: run, Replay: replay,
		Rule: "packages: all 256 combinations of 8 declaration features (shadowing local types/consts, shadowing type parameters, generic receivers, grouped/blank/init declarations, method-local types, import chains, interfaces/embedding) + 4 dependency packages + 2 packages of a dependency module under a local `replace` directive, and every package of the real closure of github.com/octohelm/gengo/... (std included); each universe is loaded once per map-iteration policy (4 global policies on both corpora, plus every vector with <=1 (thorough <=2) deviating loader sites); the synthetic module is also loaded from a second directory (same module path) in the same process, and the first universe is asked again afterwards; every accessor (Types/Constants/Functions, Type/Constant/Function, MethodsOf true/false, Imports, LocateInPackage, SourceDir) is compared with Scope(), Named.Method(i), the files' import specs and file directories. Non-trivial = package with at least one declaration; states = distinct (corpus, #types, #consts, #funcs, #methods, #imports)",
		Assumptions: []string{
			"blank names and init are ignored in all three tables",
			"MethodsOf of interface types is not judged (statement: 'declared methods')",
			"LocateInPackage/SourceDir are judged for module packages whose files sit in one directory",
			"an import that the go tool resolves to a vendored copy (std's vendor/golang.org/x/...) is compared with Universe.Package(resolved path)",
		},
	})
}
