// Package c09: snippet templating is faithful substitution. Every format
// string up to a length bound over a small alphabet, under every binding kind,
// is rendered through the real SnippetWriter and compared with a reference
// renderer written from the property statement.
package c09

import (
	"bytes"
	"context"
	"encoding/json"
	"fmt"
	"iter"
	"reflect"
	"slices"
	"strings"

	"github.com/octohelm/gengo/pkg/gengo"
	"github.com/octohelm/gengo/pkg/gengo/snippet"
	"github.com/octohelm/gengo/pkg/namer"
	"verif/mc/core"
)

const pkgPath = "x.io/target"

// renderDiff holds the description of the last snippet that rendered differently the second time.
var renderDiff string

func render(s snippet.Snippet) (out string, imports map[string]string, pan any) {
	out, imports, pan = renderOnce(s)
	// a snippet is a value: rendering the same one again (a name used twice in a template, a list
	// yielding it twice, a second file) gives the same text or the same panic
	out2, _, pan2 := renderOnce(s)
	if out2 != out || (pan == nil) != (pan2 == nil) {
		renderDiff = fmt.Sprintf("first %q (panic=%v), then %q (panic=%v)", out, pan, out2, pan2)
	}
	return
}

// sameTwice reports (as a violation of the case) a snippet that rendered differently the second time.
func sameTwice(c *core.Ctx, cs Case, what string) {
	if renderDiff != "" {
		c.Fail("", cs, "%s: the same snippet value rendered differently the second time: %s", what, renderDiff)
		renderDiff = ""
	}
}

func renderOnce(s snippet.Snippet) (out string, imports map[string]string, pan any) {
	return renderIn(s, pkgPath)
}

// otherPkgPath: a second target package (another file of the same run)
const otherPkgPath = "x.io/other"

// epoch is what the "text changes between renderings" argument renders; the harness moves it between renderings
var epoch = 1

func renderIn(s snippet.Snippet, target string) (out string, imports map[string]string, pan any) {
	defer func() { pan = recover() }()
	buf := bytes.NewBuffer(nil)
	tr := namer.NewDefaultImportTracker()
	w := gengo.NewSnippetWriter(buf, namer.NameSystems{"raw": namer.NewRawNamer(target, tr)})
	w.Render(s)
	return buf.String(), tr.Imports(), nil
}

// ---------------------------------------------------------------- T

var tAlphabet = []string{"a", "b", "1", "_", "@", "'", "%", " ", "\n", ".", "é", "{"}

// binding kinds for the name "a"
var bindKinds = []string{"unbound", "nil-ident", "empty-block", "block", "nested-template", "placeholder-looking",
	"no-arguments-at-all", "only-an-empty-Args-map", "only-a-nil-TArg", "whitespace-only-template", "tab-newline-block",
	// arguments whose rendering depends on WHEN and WHERE the template is rendered: the same template value is
	// rendered for the target package, for another package, and again after the argument's text changed
	"identifier-of-the-target-package", "snippet-whose-text-changes-between-renderings"}

func bindingFor(kind int) (s snippet.Snippet, bound bool, text string) {
	switch kind {
	case 0:
		return nil, false, ""
	case 1:
		return snippet.ID(nil), true, ""
	case 2:
		return snippet.Block(""), true, ""
	case 3:
		return snippet.Block("V"), true, "V"
	case 4:
		return snippet.T("[@b'@c]", snippet.Arg("b", snippet.Block("W")), snippet.Arg("c", snippet.Block(""))), true, "[W]"
	case 9:
		return snippet.T(" \t"), true, " \t" // text made of blanks only is text
	case 10:
		return snippet.Block("\t\n "), true, "\t\n "
	case 11:
		return snippet.ID(pkgPath + ".Thing"), true, "Thing"
	case 12:
		return snippet.Func(func(ctx context.Context) iter.Seq[string] {
			return func(yield func(string) bool) { yield(fmt.Sprintf("E%d", epoch)) }
		}), true, "E1"
	default:
		return snippet.Block("@a'%v@zz"), true, "@a'%v@zz"
	}
}

func isNameRune(r rune) bool {
	return (r >= 'A' && r <= 'Z') || (r >= 'a' && r <= 'z') || (r >= '0' && r <= '9') || r == '_'
}

// refT is the reference renderer for T, written from the statement only.
// devNilApos / devBareAt switch on the two recorded deviations.
func refT(format string, bound map[string]string, devNilApos, devBareAt bool) (string, bool) {
	rs := []rune(strings.TrimLeft(format, "\n"))
	var b strings.Builder
	for i := 0; i < len(rs); {
		if rs[i] != '@' {
			b.WriteRune(rs[i])
			i++
			continue
		}
		j := i + 1
		for j < len(rs) && isNameRune(rs[j]) {
			j++
		}
		if j == i+1 { // bare '@': ordinary text
			if devBareAt {
				// deviation: the '@' is dropped, and so is an apostrophe right after it
				i = j
				if i < len(rs) && rs[i] == '\'' {
					i++
				}
				continue
			}
			b.WriteRune('@')
			i = j
			continue
		}
		name := string(rs[i+1 : j])
		v, ok := bound[name]
		if !ok {
			return "", true
		}
		b.WriteString(v)
		i = j
		if i < len(rs) && rs[i] == '\'' {
			if devNilApos && v == "" && nilBound[name] {
				// deviation: apostrophe after a nil argument is kept
				b.WriteRune('\'')
			}
			i++
		}
	}
	return b.String(), false
}

var nilBound = map[string]bool{}

type Case struct {
	Kind   string   `json:"kind"`
	Format string   `json:"format,omitempty"`
	Bind   int      `json:"bind_kind_of_a,omitempty"`
	Args   []int    `json:"args,omitempty"`
	Lines  []string `json:"lines,omitempty"`
	// T calls sharing one Args map
	Shared   []SharedCall `json:"calls_sharing_one_args_map,omitempty"`
	Reversed bool         `json:"rendered_in_reverse_order,omitempty"`
}

func checkT(c *core.Ctx, format string, kind int) {
	cs := Case{Kind: "T", Format: format, Bind: kind}
	c.Eval(1)
	c.Trans(1)
	bound := map[string]string{"b": "B!", "a1": "<a1>"}
	args := []snippet.TArg{snippet.Arg("b", snippet.Block("B!")), snippet.Args{"a1": snippet.Block("<a1>")}}
	ok := false
	switch kind {
	case 6:
		bound, args = map[string]string{}, nil
	case 7:
		bound, args = map[string]string{}, []snippet.TArg{snippet.Args{}}
	case 8:
		bound, args = map[string]string{}, []snippet.TArg{nil}
	default:
		var sa snippet.Snippet
		var text string
		sa, ok, text = bindingFor(kind)
		if ok {
			bound["a"] = text
			args = append(args, snippet.Arg("a", sa))
		}
	}
	nilBound = map[string]bool{"a": ok && (kind == 1 || kind == 2)}
	want, wantPanic := refT(format, bound, false, false)
	tv := snippet.T(format, args...)
	got, _, pan := render(tv)
	sameTwice(c, cs, fmt.Sprintf("T(%q)", format))
	if kind == 11 || kind == 12 {
		// the SAME template value rendered again where / when its argument renders differently, and then as at first
		b2 := map[string]string{}
		for k, v := range bound {
			b2[k] = v
		}
		target := pkgPath
		if kind == 11 {
			b2["a"], target = "target.Thing", otherPkgPath
		} else {
			b2["a"], epoch = "E2", 2
		}
		want2, wantPanic2 := refT(format, b2, false, false)
		got2, _, pan2 := renderIn(tv, target)
		epoch = 1
		got3, _, pan3 := renderIn(tv, pkgPath)
		if wantPanic2 != (pan2 != nil) || (!wantPanic2 && got2 != want2) {
			c.Fail("", cs, "T(%q) with a=%s, the same template value rendered a second time (%s): got %q (panic=%v), want %q (panic=%v); the first rendering gave %q", format, bindKinds[kind], map[int]string{11: "for package " + otherPkgPath, 12: "after the argument's text changed to E2"}[kind], got2, pan2, want2, wantPanic2, got)
			return
		}
		if (pan != nil) != (pan3 != nil) || got3 != got {
			c.Fail("", cs, "T(%q) with a=%s: rendered a third time under the conditions of the first rendering: %q (panic=%v), at first %q (panic=%v)", format, bindKinds[kind], got3, pan3, got, pan)
			return
		}
	}
	c.State(fmt.Sprintf("T/p=%v/%d", pan != nil, strings.Count(format, "@")))
	if strings.Contains(format, "@") {
		c.Nontrivial("T|" + format + "|" + bindKinds[kind])
	}
	if wantPanic != (pan != nil) {
		c.Fail("", cs, "T(%q) with a=%s: reference panics=%v, implementation panic=%v output=%q", format, bindKinds[kind], wantPanic, pan, got)
		return
	}
	if wantPanic {
		return
	}
	if got == want {
		return
	}
	// deviation classes (exact match required)
	if w, _ := refT(format, bound, true, false); got == w {
		c.Fail("C09-nil-arg-keeps-apostrophe", cs, "T(%q) with a=%s: got %q want %q", format, bindKinds[kind], got, want)
		return
	}
	if w, _ := refT(format, bound, false, true); got == w {
		c.Fail("C09-bare-at-dropped", cs, "T(%q) with a=%s: got %q want %q", format, bindKinds[kind], got, want)
		return
	}
	if w, _ := refT(format, bound, true, true); got == w {
		c.Fail("C09-bare-at-dropped+nil-arg-keeps-apostrophe", cs, "T(%q) with a=%s: got %q want %q", format, bindKinds[kind], got, want)
		return
	}
	c.Fail("", cs, "T(%q) with a=%s: got %q want %q", format, bindKinds[kind], got, want)
}

// ---------------------------------------------------------------- T: several templates over ONE Args map

var sharedFormats []string

var sharedExtras = []string{"nothing more", "Arg(a, V)", "Arg(a, W)", "Args{a: V}", "Arg(c, X)"}

func extraArgs(k int) ([]snippet.TArg, map[string]string) {
	switch k {
	case 1:
		return []snippet.TArg{snippet.Arg("a", snippet.Block("V"))}, map[string]string{"a": "V"}
	case 2:
		return []snippet.TArg{snippet.Arg("a", snippet.Block("W"))}, map[string]string{"a": "W"}
	case 3:
		return []snippet.TArg{snippet.Args{"a": snippet.Block("V")}}, map[string]string{"a": "V"}
	case 4:
		return []snippet.TArg{snippet.Arg("c", snippet.Block("X"))}, map[string]string{"c": "X"}
	}
	return nil, map[string]string{}
}

type SharedCall struct {
	Format string `json:"format"`
	Extra  int    `json:"extra_argument_after_the_shared_map"`
}

// checkTShared: the caller keeps one Args map {b: B!} and passes it - followed by the call's own extra
// argument - to several T calls; all templates are built first and rendered afterwards (snippets
// render lazily), in the given order. Each rendering is judged against the bindings of ITS call.
func checkTShared(c *core.Ctx, calls []SharedCall, renderReversed bool) {
	cs := Case{Kind: "T-shared-args", Shared: calls, Reversed: renderReversed}
	c.Eval(1)
	common := snippet.Args{"b": snippet.Block("B!")}
	ts := make([]snippet.Snippet, len(calls))
	bounds := make([]map[string]string, len(calls))
	for i, call := range calls {
		extra, bound := extraArgs(call.Extra)
		bound["b"] = "B!"
		bounds[i] = bound
		ts[i] = snippet.T(call.Format, append([]snippet.TArg{common}, extra...)...)
	}
	order := make([]int, len(calls))
	for i := range order {
		order[i] = i
		if renderReversed {
			order[i] = len(calls) - 1 - i
		}
	}
	nilBound = map[string]bool{}
	for _, i := range order {
		c.Trans(1)
		want, wantPanic := refT(calls[i].Format, bounds[i], false, false)
		got, _, pan := render(ts[i])
		sameTwice(c, cs, fmt.Sprintf("T(%q) over the shared map", calls[i].Format))
		if wantPanic != (pan != nil) || (!wantPanic && got != want) {
			c.Fail("", cs, "call %d of %d over one shared Args map {b}: T(%q, shared, %s) rendered %q (panic=%v), its own bindings give %q (panic=%v)", i+1, len(calls), calls[i].Format, sharedExtras[calls[i].Extra], got, pan, want, wantPanic)
			return
		}
	}
	c.Nontrivial(fmt.Sprint("shared|", calls, renderReversed))
}

// ---------------------------------------------------------------- Sprintf

var sAlphabet = []string{"%", "v", "T", "d", "a", " ", "\n", "é"}

type sarg struct {
	name string
	v    any
	asV  string // rendering under %v ("" + okV=false: illegal pairing)
	okV  bool
	asT  string
	okT  bool
	// rendering under %T when the target is the other package ("" = the same)
	asTOther string
}

var sargs = []sarg{
	{"string", "p/q.N", `"p/q.N"`, true, "q.N", true, ""},
	{"int", 7, "7", true, "", false, ""},
	{"snippet", snippet.Block("S%v@a"), "S%v@a", true, "S%v@a", true, ""},
	{"reflect.Type", reflect.TypeOf(map[string][]int{}), "", false, "map[string][]int", true, ""},
	{"empty-block", snippet.Block(""), "", true, "", true, ""},
	{"empty-template", snippet.T(""), "", true, "", true, ""},
	{"name-of-the-target-package", pkgPath + ".Thing", `"x.io/target.Thing"`, true, "Thing", true, "target.Thing"},
}

// refSprintf: ok=false means the pairing is outside the alphabet (illegal verb/arg pairing)
// sprintfOther: the expectation is computed for the other target package
var sprintfOther bool

func refSprintf(format string, args []int, devPct bool) (out string, panics bool, ok bool) {
	rs := []rune(format)
	var b strings.Builder
	ai := 0
	for i := 0; i < len(rs); i++ {
		if rs[i] != '%' {
			b.WriteRune(rs[i])
			continue
		}
		if i+1 >= len(rs) {
			return "", true, true
		}
		i++
		switch rs[i] {
		case '%':
			b.WriteRune('%')
			if devPct {
				// deviation: the second '%' is read again as the start of a verb
				i--
			}
		case 'v', 'T':
			if ai >= len(args) {
				return "", true, true
			}
			a := sargs[args[ai]]
			ai++
			if rs[i] == 'v' {
				if !a.okV {
					return "", false, false
				}
				b.WriteString(a.asV)
			} else {
				if !a.okT {
					return "", false, false
				}
				if sprintfOther && a.asTOther != "" {
					b.WriteString(a.asTOther)
				} else {
					b.WriteString(a.asT)
				}
			}
		default:
			return "", true, true
		}
	}
	return b.String(), false, true
}

func checkSprintf(c *core.Ctx, format string, args []int) {
	cs := Case{Kind: "Sprintf", Format: format, Args: args}
	want, wantPanic, ok := refSprintf(format, args, false)
	if !ok {
		return // illegal verb/argument pairing: outside the alphabet
	}
	c.Eval(1)
	c.Trans(1)
	vals := make([]any, len(args))
	for i, a := range args {
		vals[i] = sargs[a].v
	}
	sv := snippet.Sprintf(format, vals...)
	got, _, pan := render(sv)
	sameTwice(c, cs, fmt.Sprintf("Sprintf(%q)", format))
	{
		// the same value rendered for another target package
		sprintfOther = true
		want2, wantPanic2, _ := refSprintf(format, args, false)
		sprintfOther = false
		got2, _, pan2 := renderIn(sv, otherPkgPath)
		if wantPanic2 != (pan2 != nil) || (!wantPanic2 && got2 != want2) {
			c.Fail("", cs, "Sprintf(%q, %v), the same snippet value rendered a second time for package %s: got %q (panic=%v), want %q (panic=%v); the first rendering gave %q", format, argNames(args), otherPkgPath, got2, pan2, want2, wantPanic2, got)
			return
		}
	}
	c.State(fmt.Sprintf("S/p=%v/%d", pan != nil, strings.Count(format, "%")))
	if strings.Contains(format, "%") {
		c.Nontrivial(fmt.Sprint("S|", format, args))
	}
	if wantPanic == (pan != nil) && (wantPanic || got == want) {
		return
	}
	class := ""
	if strings.Contains(format, "%%") {
		if w, wp, ok2 := refSprintf(format, args, true); ok2 && wp == (pan != nil) && (wp || w == got) {
			class = "C09-sprintf-double-percent"
		}
	}
	c.Fail(class, cs, "Sprintf(%q, %v): reference (panic=%v, %q), implementation (panic=%v, %q)", format, argNames(args), wantPanic, want, pan, got)
}

func argNames(a []int) []string {
	out := make([]string, len(a))
	for i, x := range a {
		out[i] = sargs[x].name
	}
	return out
}

// ---------------------------------------------------------------- Comment / GoDirective / Snippets / Fragments

var lineAlphabet = []string{"", "x", " y ", "a // b", "é@a'%v", "z\r"}

func checkComment(c *core.Ctx, lines []string) {
	cs := Case{Kind: "Comment", Lines: lines}
	c.Eval(1)
	c.Trans(1)
	text := strings.Join(lines, "\n")
	got, _, pan := render(snippet.Comment(text))
	sameTwice(c, cs, "Comment")
	want := ""
	if text != "" {
		parts := make([]string, len(lines))
		for i, l := range lines {
			parts[i] = "// " + l
		}
		want = strings.Join(parts, "\n")
	}
	c.State(fmt.Sprintf("C/%d", len(lines)))
	if len(lines) > 1 {
		c.Nontrivial("C|" + text)
	}
	if pan != nil || got != want {
		c.Fail("", cs, "Comment(%q): got %q (panic=%v) want %q", text, got, pan, want)
	}
	// every produced line must be a // comment line
	if pan == nil && got != "" {
		for _, l := range strings.Split(got, "\n") {
			if !strings.HasPrefix(l, "//") {
				c.Fail("", cs, "Comment(%q): line %q is not a comment line", text, l)
			}
		}
	}
}

var dirAlphabet = []string{"", "embed", "build"}
var dirArgAlphabet = []string{"", "x", "a b"}

func checkDirective(c *core.Ctx, dir string, args []string) {
	cs := Case{Kind: "GoDirective", Format: dir, Lines: args}
	c.Eval(1)
	c.Trans(1)
	// (the call gets its own copy: args stays what the case says whatever the callee does with its slice)
	got, _, pan := render(snippet.GoDirective(dir, append([]string(nil), args...)...))
	sameTwice(c, cs, "GoDirective")
	want := ""
	if dir != "" {
		want = "//go:" + dir
		for _, a := range args {
			if a != "" {
				want += " " + a
			}
		}
	}
	c.State(fmt.Sprintf("D/%v/%d", dir != "", len(args)))
	if len(args) > 0 && dir != "" {
		c.Nontrivial(fmt.Sprint("D|", dir, args))
	}
	if pan != nil || got != want {
		c.Fail("", cs, "GoDirective(%q, %q): got %q (panic=%v) want %q", dir, args, got, pan, want)
	}
}

// two directives over ONE caller-owned slice (the second over a tail of it), both built first, rendered in
// both orders: each must render its own non-empty arguments
func checkDirectiveShared(c *core.Ctx, dir string, args []string) {
	wantOf := func(as []string) string {
		w := "//go:" + dir
		for _, a := range as {
			if a != "" {
				w += " " + a
			}
		}
		return w
	}
	for k := 1; k < len(args); k++ {
		for _, tailFirst := range []bool{false, true} {
			c.Eval(1)
			c.Trans(2)
			xs := append([]string(nil), args...) // the caller's slice
			pristine := append([]string(nil), args...)
			d1 := snippet.GoDirective(dir, xs...)
			d2 := snippet.GoDirective(dir, xs[k:]...)
			cs := Case{Kind: "GoDirective-shared-slice", Format: dir, Lines: args, Bind: k, Reversed: tailFirst}
			var g1, g2 string
			var p1, p2 any
			if tailFirst {
				g2, _, p2 = render(d2)
				g1, _, p1 = render(d1)
			} else {
				g1, _, p1 = render(d1)
				g2, _, p2 = render(d2)
			}
			sameTwice(c, cs, "GoDirective over a shared slice")
			if p1 != nil || p2 != nil || g1 != wantOf(pristine) || g2 != wantOf(pristine[k:]) {
				c.Fail("", cs, "xs=%q; d1=GoDirective(%q, xs...), d2=GoDirective(%q, xs[%d:]...), rendered tail first=%v: d1=%q (want %q, panic=%v) d2=%q (want %q, panic=%v)", pristine, dir, dir, k, tailFirst, g1, wantOf(pristine), p1, g2, wantOf(pristine[k:]), p2)
			}
			c.Nontrivial(fmt.Sprint("Dshared|", dir, args, k, tailFirst))
		}
	}
}

var partKinds = []string{"nil-ident", "empty-block", "empty-template", "A", "B", "sprintf-empty", "nested-snippets", "blank-only-template", "blank-only-block", "newline-then-blank-template"}

func part(k int) (snippet.Snippet, string) {
	switch k {
	case 0:
		return snippet.ID(nil), ""
	case 1:
		return snippet.Block(""), ""
	case 2:
		return snippet.T(""), ""
	case 3:
		return snippet.Block("A"), "A"
	case 4:
		return snippet.T("@x'B", snippet.Arg("x", snippet.Block(""))), "B"
	case 5:
		return snippet.Sprintf(""), ""
	case 7:
		return snippet.T(" "), " "
	case 8:
		return snippet.Block(" \t"), " \t"
	case 9:
		return snippet.T("\n\n  \n"), "  \n" // leading newlines go, the rest is text
	default:
		return snippet.Snippets(func(yield func(snippet.Snippet) bool) {
			if !yield(snippet.Block("<")) {
				return
			}
			yield(snippet.Block(">"))
		}), "<>"
	}
}

func checkParts(c *core.Ctx, ks []int) {
	cs := Case{Kind: "Snippets", Args: ks}
	c.Eval(1)
	c.Trans(2)
	want := ""
	var ps []snippet.Snippet
	for _, k := range ks {
		s, w := part(k)
		ps = append(ps, s)
		want += w
	}
	seq := snippet.Snippets(func(yield func(snippet.Snippet) bool) {
		for _, p := range ps {
			if !yield(p) {
				return
			}
		}
	})
	got, _, pan := render(seq)
	sameTwice(c, cs, "Snippets")
	c.State(fmt.Sprintf("P/%d", len(ks)))
	if len(ks) > 1 {
		c.Nontrivial(fmt.Sprint("P|", ks))
	}
	if pan != nil || got != want {
		c.Fail("", cs, "Snippets(%v): got %q (panic=%v) want %q", names(ks), got, pan, want)
	}
	// the same parts from sequences that can be run only ONCE (a cursor over a queue) or that number their
	// parts as they go: rendered once, as a top-level snippet, as a template argument and nested in a list -
	// every part exactly once, none lost to a peek
	for mode := 0; mode < 3; mode++ {
		c.Trans(1)
		queue := append([]snippet.Snippet(nil), ps...)
		produced := 0
		oneShot := snippet.Snippets(func(yield func(snippet.Snippet) bool) {
			for len(queue) > 0 {
				p := queue[0]
				queue = queue[1:]
				produced++
				if !yield(p) {
					return
				}
			}
		})
		var top snippet.Snippet = oneShot
		w := want
		switch mode {
		case 1:
			top, w = snippet.T("[@xs']", snippet.Arg("xs", oneShot)), "["+want+"]"
		case 2:
			top, w = snippet.Snippets(slices.Values([]snippet.Snippet{snippet.Block("<"), oneShot, snippet.Block(">")})), "<"+want+">"
		}
		g, _, p := renderOnce(top)
		if p != nil || g != w || produced != len(ps) {
			c.Fail("", Case{Kind: "Snippets", Args: ks, Bind: mode + 1}, "a single-use Snippets sequence of %v (mode %d: 0 top level, 1 template argument, 2 nested in a list) rendered %q (panic=%v, %d of %d parts produced), want %q", names(ks), mode, g, p, produced, len(ps), w)
		}
	}
	// Fragments of each part alone: concatenation of its fragments, nothing for nil parts
	for _, k := range ks {
		s, w := part(k)
		var b strings.Builder
		func() {
			defer func() {
				if r := recover(); r != nil {
					c.Fail("", cs, "Fragments(%s) panicked: %v", partKinds[k], r)
				}
			}()
			d := context.Background()
			_ = d
			got2, _, pan2 := render(snippet.Func(func(ctx context.Context) iter.Seq[string] {
				return func(yield func(string) bool) {
					for f := range snippet.Fragments(ctx, s) {
						if !yield(f) {
							return
						}
					}
				}
			}))
			if pan2 != nil {
				panic(pan2)
			}
			b.WriteString(got2)
		}()
		if b.String() != w {
			c.Fail("", cs, "Fragments(%s): got %q want %q", partKinds[k], b.String(), w)
		}
	}
}

func names(ks []int) []string {
	out := make([]string, len(ks))
	for i, k := range ks {
		out[i] = partKinds[k]
	}
	return out
}

// ---------------------------------------------------------------- driver

func buildStr(ch *core.Chooser, alpha []string, maxLen int) string {
	var b strings.Builder
	for i := 0; i < maxLen; i++ {
		k := ch.Choose(len(alpha) + 1)
		if k == 0 {
			break
		}
		b.WriteString(alpha[k-1])
	}
	return b.String()
}

func buildSeq(ch *core.Chooser, n int, maxLen int) []int {
	var out []int
	for i := 0; i < maxLen; i++ {
		k := ch.Choose(n + 1)
		if k == 0 {
			break
		}
		out = append(out, k-1)
	}
	return out
}

func run(c *core.Ctx) {
	tLen := c.Pick(5, 7)
	sLen := c.Pick(5, 6)
	c.Bound("T_alphabet", tAlphabet)
	c.Bound("T_max_len", tLen)
	c.Bound("T_bindings_of_a", bindKinds)
	c.Bound("Sprintf_alphabet", sAlphabet)
	c.Bound("Sprintf_max_len", sLen)
	c.Bound("Sprintf_args", []string{"string", "int", "snippet", "reflect.Type", "empty-block", "empty-template", "name-of-the-target-package"})
	c.Bound("renderings_per_snippet_value", "twice for the target package; templates with context- or time-dependent arguments and every Sprintf value once more for another package / after the change, then as at first")
	c.Bound("Sprintf_max_args", 2)

	// histories: 2 (3) T calls over one shared Args map, every format <=2 over {@a, @b, @c, x}
	core.Explore(c, core.ExploreOpts{Bound: -1}, func(ch *core.Chooser, _ bool) {
		if f := buildStr(ch, []string{"@a", "@b", "@c", "x"}, 2); f != "" {
			sharedFormats = append(sharedFormats, f)
		}
	})
	c.Bound("shared_args_histories", map[string]any{"calls": c.Pick(2, 3), "formats": sharedFormats, "extra_argument": sharedExtras, "render_order": []string{"as built", "reversed"}})
	var rec func(prefix []SharedCall, n int)
	rec = func(prefix []SharedCall, n int) {
		if len(prefix) == n {
			if c.Next() {
				checkTShared(c, prefix, false)
				checkTShared(c, prefix, true)
			}
			return
		}
		for _, f := range sharedFormats {
			for e := range sharedExtras {
				if len(prefix) >= 2 && e > 2 {
					continue // third call: extras {nothing, a=V, a=W}
				}
				rec(append(append([]SharedCall{}, prefix...), SharedCall{f, e}), n)
			}
		}
	}
	rec(nil, 2)
	if c.Thorough() {
		rec(nil, 3)
	}

	core.Explore(c, core.ExploreOpts{Bound: -1}, func(ch *core.Chooser, _ bool) {
		f := buildStr(ch, tAlphabet, tLen)
		if !c.Next() {
			return
		}
		for k := range bindKinds {
			if k >= 11 && !strings.Contains(f, "@a") {
				continue // without a placeholder for a these behave like the plain block
			}
			checkT(c, f, k)
		}
		if strings.Count(f, "@") == 1 && len(f) == 4 {
			c.Sample(map[string]any{"T_format": f})
		}
	})
	core.Explore(c, core.ExploreOpts{Bound: -1}, func(ch *core.Chooser, _ bool) {
		f := buildStr(ch, sAlphabet, sLen)
		if !c.Next() {
			return
		}
		core.Explore(c, core.ExploreOpts{Bound: -1}, func(ch2 *core.Chooser, _ bool) {
			args := buildSeq(ch2, len(sargs), 2)
			checkSprintf(c, f, args)
		})
	})
	core.Explore(c, core.ExploreOpts{Bound: -1}, func(ch *core.Chooser, _ bool) {
		ks := buildSeq(ch, len(lineAlphabet), 4)
		if !c.Next() {
			return
		}
		lines := make([]string, len(ks))
		for i, k := range ks {
			lines[i] = lineAlphabet[k]
		}
		checkComment(c, lines)
	})
	if c.Next() {
		// lines longer than any line buffer (an embedded data URI): 64 KiB - 1, 64 KiB, 70 KiB
		for _, n := range []int{1<<16 - 1, 1 << 16, 70 << 10} {
			long := strings.Repeat("x", n)
			checkComment(c, []string{long})
			checkComment(c, []string{"a", long, "b"})
			checkComment(c, []string{long, ""})
		}
	}
	for _, d := range dirAlphabet {
		core.Explore(c, core.ExploreOpts{Bound: -1}, func(ch *core.Chooser, _ bool) {
			ks := buildSeq(ch, len(dirArgAlphabet), 4)
			if !c.Next() {
				return
			}
			args := make([]string, len(ks))
			for i, k := range ks {
				args[i] = dirArgAlphabet[k]
			}
			checkDirective(c, d, args)
			if d != "" && len(args) >= 2 {
				checkDirectiveShared(c, d, args)
			}
		})
	}
	core.Explore(c, core.ExploreOpts{Bound: -1}, func(ch *core.Chooser, _ bool) {
		ks := buildSeq(ch, len(partKinds), c.Pick(3, 4))
		if !c.Next() {
			return
		}
		checkParts(c, ks)
	})
}

func replay(c *core.Ctx, raw json.RawMessage) {
	var cs Case
	if err := json.Unmarshal(raw, &cs); err != nil {
		c.Internal("bad case: %v", err)
		return
	}
	switch cs.Kind {
	case "GoDirective-shared-slice":
		checkDirectiveShared(c, cs.Format, cs.Lines)
	case "T-shared-args":
		checkTShared(c, cs.Shared, cs.Reversed)
	case "T":
		checkT(c, cs.Format, cs.Bind)
	case "Sprintf":
		checkSprintf(c, cs.Format, cs.Args)
	case "Comment":
		checkComment(c, cs.Lines)
	case "GoDirective":
		checkDirective(c, cs.Format, cs.Lines)
	case "Snippets":
		checkParts(c, cs.Args)
	}
}

func init() {
	core.Register(&core.Prop{
		ID: "C09", Level: "model_checking", Run: run, Replay: replay,
		Rule: "T: every history of 2 (3) T calls that share ONE caller-owned Args map followed by the call's own extra argument (20 formats x 5 extras per call, all built first, rendered in both orders, each judged against its own bindings); every format string of <=L symbols over a 12-symbol alphabet (name runes, '@', apostrophe, '%', space, newline, punctuation, non-ASCII) x 9 binding configurations (the name a unbound / nil / empty / literal / nested template / placeholder-looking text, each next to two other bound names; and no arguments at all / only an empty Args map / only a nil TArg); Sprintf: every format <=L over 8 symbols x every argument list <=2 of 6 argument kinds (incl. empty snippets) with legal verb pairing; Comment over all line lists <=4 of 5 lines; GoDirective over 3 directives x argument lists <=3; Snippets/Fragments over part lists <=3..4 of 7 part kinds. Non-trivial = the format contains a placeholder/verb introducer (or more than one line/part); states = distinct (construct, panic?, introducer count) classes",
		Assumptions: []string{
			"formats containing BOM/NUL/invalid UTF-8 are outside the alphabet (text/scanner artefacts, statement silent)",
			"untyped-nil Snippet interface values as arguments are outside the alphabet",
			"%v of a reflect.Type and %T of an int are caller errors and outside the alphabet",
			"Comment(\"\") renders nothing (empty text has no lines)",
			"Sprintf with an ID(nil) snippet argument is outside the alphabet (its Frag panics by design; the statement only defines nil arguments for T)",
		},
	})
}
