// Package gocheck is the compile-and-run back end: generated code is only
// correct if the Go compiler accepts it and it behaves at run time, so checks
// build the synthetic module with the pinned toolchain and run a harness-written
// main that reports, per package, what it observed.
package gocheck

import (
	"bytes"
	"encoding/json"
	"fmt"
	"os"
	"os/exec"
	"path/filepath"
	"regexp"
	"sort"
	"strings"
)

func goCmd(dir string, args ...string) ([]byte, []byte, error) {
	cmd := exec.Command("go", args...)
	cmd.Dir = dir
	cmd.Env = append(os.Environ(), "GOFLAGS=-mod=mod", "GOPROXY=off", "GOTOOLCHAIN=local", "GOWORK=off")
	var o, e bytes.Buffer
	cmd.Stdout = &o
	cmd.Stderr = &e
	err := cmd.Run()
	return o.Bytes(), e.Bytes(), err
}

var pkgLine = regexp.MustCompile(`^# (\S+)`)

// BuildErrors compiles the packages matching pattern and returns the compiler
// output per failing package (import path -> messages).
func BuildErrors(dir, pattern string) (map[string]string, error) {
	_, stderr, err := goCmd(dir, "build", "-trimpath", "-gcflags=-e", pattern)
	out := map[string]string{}
	if err == nil {
		return out, nil
	}
	cur := ""
	for _, l := range strings.Split(string(stderr), "\n") {
		if m := pkgLine.FindStringSubmatch(l); m != nil {
			cur = m[1]
			continue
		}
		if cur != "" && strings.TrimSpace(l) != "" {
			out[cur] += l + "\n"
		}
	}
	if len(out) == 0 {
		return nil, fmt.Errorf("go build failed without per-package diagnostics: %s", stderr)
	}
	return out, nil
}

// Report is what the generated main prints: per package, the list of failed
// expectations (empty = all held) and the number of expectations evaluated.
type Report struct {
	Pkg    string   `json:"pkg"`
	Checks int      `json:"checks"`
	Fails  []string `json:"fails"`
}

// RunMain writes cmd/verifmain/main.go importing the given packages (each must
// define `func VerifRun() (checks int, fails []string)`), builds and runs it.
func RunMain(dir, modPath string, pkgs []string) ([]Report, error) {
	sort.Strings(pkgs)
	var b strings.Builder
	b.WriteString("package main\n\nimport (\n\t\"encoding/json\"\n\t\"fmt\"\n\t\"os\"\n")
	for i, p := range pkgs {
		fmt.Fprintf(&b, "\tp%d %q\n", i, p)
	}
	b.WriteString(")\n\ntype report struct {\n\tPkg string `json:\"pkg\"`\n\tChecks int `json:\"checks\"`\n\tFails []string `json:\"fails\"`\n}\n\n")
	b.WriteString("func run(pkg string, f func() (int, []string)) (r report) {\n\tr.Pkg = pkg\n\tdefer func() {\n\t\tif x := recover(); x != nil {\n\t\t\tr.Fails = append(r.Fails, fmt.Sprint(\"panic: \", x))\n\t\t}\n\t}()\n\tr.Checks, r.Fails = f()\n\treturn\n}\n\n")
	b.WriteString("func main() {\n\tvar all []report\n")
	for i, p := range pkgs {
		fmt.Fprintf(&b, "\tall = append(all, run(%q, p%d.VerifRun))\n", p, i)
	}
	b.WriteString("\t_ = json.NewEncoder(os.Stdout).Encode(all)\n}\n")
	mainDir := filepath.Join(dir, "cmd", "verifmain")
	if err := os.MkdirAll(mainDir, 0o755); err != nil {
		return nil, err
	}
	if err := os.WriteFile(filepath.Join(mainDir, "main.go"), []byte(b.String()), 0o644); err != nil {
		return nil, err
	}
	stdout, stderr, err := goCmd(dir, "run", "-trimpath", "./cmd/verifmain")
	if err != nil {
		return nil, fmt.Errorf("go run ./cmd/verifmain: %v\n%s", err, tail(string(stderr), 3000))
	}
	var reps []Report
	if err := json.Unmarshal(stdout, &reps); err != nil {
		return nil, fmt.Errorf("verifmain output: %v: %s", err, tail(string(stdout), 500))
	}
	return reps, nil
}

func tail(s string, n int) string {
	if len(s) > n {
		return s[len(s)-n:]
	}
	return s
}

// VerifKit is the source of the reflection helpers shared by the generated
// check files (package <mod>/verifkit).
const VerifKit = `// Package verifkit holds reflection helpers used by harness-written check files.
package verifkit

import (
	"fmt"
	"reflect"
	"unsafe"
)

// acc gives read / write access to a field of an addressable struct whether it is exported or not
func acc(v reflect.Value) reflect.Value {
	if v.CanInterface() || !v.CanAddr() {
		return v
	}
	return reflect.NewAt(v.Type(), unsafe.Pointer(v.UnsafeAddr())).Elem()
}

type stringer string

func (s stringer) String() string { return string(s) }

type errT string

func (e errT) Error() string { return string(e) }

// FillMode selects the shape of the containers Fill builds: 0 two elements each; 1 empty but
// non-nil; 2 nil (pointers too); 3 alternating two elements / empty with spare capacity / nil.
var FillMode int

var FillModeNames = []string{"populated", "empty-non-nil containers", "nil containers and pointers", "mixed populated/empty/nil"}

func containerShape(n int) int {
	switch FillMode {
	case 1:
		return 1
	case 2:
		return 2
	case 3:
		return n % 3
	}
	return 0
}

// Fill sets every settable leaf reachable from v to a distinct non-zero value.
func Fill(v reflect.Value, n *int) {
	*n++
	switch v.Kind() {
	case reflect.Slice, reflect.Map, reflect.Pointer:
		switch sh := containerShape(*n); {
		case sh == 2:
			return
		case sh == 1 && v.Kind() == reflect.Slice:
			v.Set(reflect.MakeSlice(v.Type(), 0, 4*(FillMode/3)))
			return
		case sh == 1 && v.Kind() == reflect.Map:
			v.Set(reflect.MakeMap(v.Type()))
			return
		}
	}
	switch v.Kind() {
	case reflect.Bool:
		v.SetBool(true)
	case reflect.Int, reflect.Int8, reflect.Int16, reflect.Int32, reflect.Int64:
		v.SetInt(int64(*n%100 + 1))
	case reflect.Uint, reflect.Uint8, reflect.Uint16, reflect.Uint32, reflect.Uint64:
		v.SetUint(uint64(*n%100 + 1))
	case reflect.Float32, reflect.Float64:
		v.SetFloat(float64(*n) + 0.5)
	case reflect.String:
		v.SetString(fmt.Sprintf("s%d", *n))
	case reflect.Slice:
		s := reflect.MakeSlice(v.Type(), 2, 2)
		for i := 0; i < 2; i++ {
			Fill(s.Index(i), n)
		}
		v.Set(s)
	case reflect.Array:
		for i := 0; i < v.Len(); i++ {
			Fill(v.Index(i), n)
		}
	case reflect.Map:
		m := reflect.MakeMap(v.Type())
		for i := 0; i < 2; i++ {
			k := reflect.New(v.Type().Key()).Elem()
			Fill(k, n)
			e := reflect.New(v.Type().Elem()).Elem()
			Fill(e, n)
			m.SetMapIndex(k, e)
		}
		v.Set(m)
	case reflect.Struct:
		for i := 0; i < v.NumField(); i++ {
			if f := acc(v.Field(i)); f.CanSet() {
				Fill(f, n)
			}
		}
	case reflect.Pointer:
		p := reflect.New(v.Type().Elem())
		Fill(p.Elem(), n)
		v.Set(p)
	case reflect.Interface:
		var x any = fmt.Sprintf("i%d", *n)
		if v.Type().NumMethod() > 0 {
			x = nil
			if reflect.TypeOf(errT("")).Implements(v.Type()) {
				x = errT(fmt.Sprintf("e%d", *n))
			} else if reflect.TypeOf(stringer("")).Implements(v.Type()) {
				x = stringer(fmt.Sprintf("g%d", *n))
			}
		}
		if x != nil {
			v.Set(reflect.ValueOf(x))
		}
	}
}

// Clone makes an independent deep copy (the harness' own, trusted one).
func Clone(v reflect.Value) reflect.Value {
	out := reflect.New(v.Type()).Elem()
	switch v.Kind() {
	case reflect.Slice:
		if v.IsNil() {
			return out
		}
		s := reflect.MakeSlice(v.Type(), v.Len(), v.Len())
		for i := 0; i < v.Len(); i++ {
			s.Index(i).Set(Clone(v.Index(i)))
		}
		return s
	case reflect.Map:
		if v.IsNil() {
			return out
		}
		m := reflect.MakeMap(v.Type())
		for _, k := range v.MapKeys() {
			m.SetMapIndex(Clone(k), Clone(v.MapIndex(k)))
		}
		return m
	case reflect.Struct:
		// (unexported fields are cloned as well: the source is made addressable first)
		if !v.CanAddr() {
			tmp := reflect.New(v.Type()).Elem()
			tmp.Set(v)
			v = tmp
		}
		for i := 0; i < v.NumField(); i++ {
			if f := acc(out.Field(i)); f.CanSet() {
				f.Set(Clone(acc(v.Field(i))))
			}
		}
		return out
	case reflect.Pointer:
		if v.IsNil() {
			return out
		}
		p := reflect.New(v.Type().Elem())
		p.Elem().Set(Clone(v.Elem()))
		return p
	case reflect.Array:
		for i := 0; i < v.Len(); i++ {
			out.Index(i).Set(Clone(v.Index(i)))
		}
		return out
	default:
		out.Set(v)
		return out
	}
}

// Mutate appends to / assigns into / deletes from every slice and map reachable
// from v through struct nesting (not through pointers or interfaces) and returns
// how many containers it touched.
func Mutate(v reflect.Value) int {
	n := 0
	switch v.Kind() {
	case reflect.Struct:
		for i := 0; i < v.NumField(); i++ {
			if f := acc(v.Field(i)); f.CanSet() {
				n += Mutate(f)
			}
		}
	case reflect.Slice:
		if v.IsNil() {
			return 0
		}
		n++
		if v.Len() > 0 {
			z := reflect.New(v.Type().Elem()).Elem()
			v.Index(0).Set(z) // assign into
		}
		v.Set(reflect.Append(v, reflect.New(v.Type().Elem()).Elem())) // append
	case reflect.Map:
		if v.IsNil() {
			return 0
		}
		n++
		keys := v.MapKeys()
		if len(keys) > 0 {
			v.SetMapIndex(keys[0], reflect.Value{}) // delete
		}
		if len(keys) > 1 {
			v.SetMapIndex(keys[1], reflect.New(v.Type().Elem()).Elem()) // assign
		}
		k := reflect.New(v.Type().Key()).Elem()
		v.SetMapIndex(k, reflect.New(v.Type().Elem()).Elem()) // insert zero key
	}
	return n
}

// CheckDoc calls RuntimeDoc(names...) on ptr and compares with the expectation.
func CheckDoc(checks *int, fails *[]string, label string, ptr any, names []string, want []string, wantOK bool) {
	*checks++
	d, ok := ptr.(interface {
		RuntimeDoc(names ...string) ([]string, bool)
	})
	if !ok {
		*fails = append(*fails, label+": no RuntimeDoc method")
		return
	}
	defer func() {
		if r := recover(); r != nil {
			*fails = append(*fails, fmt.Sprintf("%s: RuntimeDoc(%q) panicked: %v", label, names, r))
		}
	}()
	// asked twice; the caller scribbles over the first answer in between (a returned slice is the caller's)
	first, _ := d.RuntimeDoc(names...)
	for i := range first {
		first[i] = "scribbled by the caller"
	}
	got, gotOK := d.RuntimeDoc(names...)
	same := gotOK == wantOK && len(got) == len(want)
	if same {
		for i := range got {
			if got[i] != want[i] {
				same = false
			}
		}
	}
	if !wantOK && gotOK == false && len(got) == 0 {
		same = true
	}
	if !same {
		*fails = append(*fails, fmt.Sprintf("%s: RuntimeDoc(%q) = (%q, %v), want (%q, %v)", label, names, got, gotOK, want, wantOK))
	}
}

// AskDoc calls RuntimeDoc and discards the answer (for questions whose answer is not specified but which
// must not disturb later ones).
func AskDoc(ptr any, names ...string) {
	defer func() { _ = recover() }()
	if d, ok := ptr.(interface {
		RuntimeDoc(names ...string) ([]string, bool)
	}); ok {
		_, _ = d.RuntimeDoc(names...)
	}
}

// HasRuntimeDoc reports whether ptr has the method at all.
func HasRuntimeDoc(ptr any) bool {
	_, ok := ptr.(interface {
		RuntimeDoc(names ...string) ([]string, bool)
	})
	return ok
}

// CheckPartial compares the generated partial struct (gen points to one) with
// the origin struct (org points to one) and exercises DeepCopyAs.
func CheckPartial(checks *int, fails *[]string, label string, gen, org any, omitted []string, replaced map[string]string) {
	fail := func(format string, a ...any) { *fails = append(*fails, label+": "+fmt.Sprintf(format, a...)) }
	gt := reflect.TypeOf(gen).Elem()
	ot := reflect.TypeOf(org).Elem()
	om := map[string]bool{}
	for _, o := range omitted {
		om[o] = true
	}
	var retained []reflect.StructField
	for i := 0; i < ot.NumField(); i++ {
		if !om[ot.Field(i).Name] {
			retained = append(retained, ot.Field(i))
		}
	}
	*checks++
	if gt.Kind() != reflect.Struct || gt.NumField() != len(retained) {
		fail("generated type has %d fields, origin retains %d: %v", gt.NumField(), len(retained), gt)
		return
	}
	for i, rf := range retained {
		gf := gt.Field(i)
		*checks++
		if gf.Name != rf.Name {
			fail("field %d is %s, origin order says %s", i, gf.Name, rf.Name)
			continue
		}
		if newTag, isReplaced := replaced[rf.Name]; isReplaced {
			if newTag != "" && string(gf.Tag) != newTag {
				fail("replaced field %s has tag %q, the replace tag says %q", gf.Name, gf.Tag, newTag)
			}
			continue
		}
		if gf.Type != rf.Type {
			fail("field %s has type %v, origin has %v", gf.Name, gf.Type, rf.Type)
		}
		if gf.Tag != rf.Tag {
			fail("field %s has tag %q, origin has %q", gf.Name, gf.Tag, rf.Tag)
		}
	}
	// DeepCopyAs
	pv := reflect.ValueOf(gen)
	m := pv.MethodByName("DeepCopyAs")
	if !m.IsValid() {
		fail("no DeepCopyAs method")
		return
	}
	*checks++
	if res := reflect.Zero(pv.Type()).MethodByName("DeepCopyAs").Call(nil)[0]; !res.IsNil() {
		fail("DeepCopyAs of nil is not nil")
	}
	for mode := 0; mode <= 3; mode++ {
		checkPartialCopy(checks, fail, reflect.New(gt), ot, om, replaced, mode)
	}
}

func checkPartialCopy(checks *int, fail0 func(string, ...any), pv reflect.Value, ot reflect.Type, om map[string]bool, replaced map[string]string, mode int) {
	fail := func(format string, a ...any) {
		fail0("value shape %q: "+format, append([]any{FillModeNames[mode]}, a...)...)
	}
	m := pv.MethodByName("DeepCopyAs")
	n := 0
	FillMode = mode
	Fill(pv.Elem(), &n)
	FillMode = 0
	*checks++
	res := m.Call(nil)[0]
	if res.Type() != reflect.PointerTo(ot) {
		fail("DeepCopyAs returns %v, want *%v", res.Type(), ot)
		return
	}
	if res.IsNil() {
		fail("DeepCopyAs of a non-nil value returned nil")
		return
	}
	out := res.Elem()
	for i := 0; i < ot.NumField(); i++ {
		f := ot.Field(i)
		*checks++
		if om[f.Name] {
			if !out.Field(i).IsZero() {
				fail("omitted field %s is not zero in the result: %v", f.Name, acc(out.Field(i)).Interface())
			}
			continue
		}
		src := acc(pv.Elem().FieldByName(f.Name))
		if _, isReplaced := replaced[f.Name]; isReplaced {
			// compare field by field by name
			dst := acc(out.Field(i))
			for src.Kind() == reflect.Pointer && !src.IsNil() {
				src = src.Elem()
			}
			for dst.Kind() == reflect.Pointer && !dst.IsNil() {
				dst = dst.Elem()
			}
			if src.Kind() == reflect.Struct && dst.Kind() == reflect.Struct {
				for k := 0; k < dst.NumField(); k++ {
					sf := src.FieldByName(dst.Type().Field(k).Name)
					if sf.IsValid() && !reflect.DeepEqual(sf.Interface(), dst.Field(k).Interface()) {
						fail("replaced field %s.%s: %v in the source, %v in the result", f.Name, dst.Type().Field(k).Name, sf.Interface(), dst.Field(k).Interface())
					}
				}
			}
			continue
		}
		if !reflect.DeepEqual(src.Interface(), acc(out.Field(i)).Interface()) {
			fail("retained field %s: %v in the source, %v in the result", f.Name, src.Interface(), acc(out.Field(i)).Interface())
		}
	}
}

// EqualNilEmpty is reflect.DeepEqual with nil and empty slices/maps identified.
func EqualNilEmpty(a, b reflect.Value) bool {
	if a.IsValid() != b.IsValid() {
		return false
	}
	if !a.IsValid() {
		return true
	}
	if a.Type() != b.Type() {
		return false
	}
	switch a.Kind() {
	case reflect.Slice:
		if a.Len() != b.Len() {
			return false
		}
		for i := 0; i < a.Len(); i++ {
			if !EqualNilEmpty(a.Index(i), b.Index(i)) {
				return false
			}
		}
		return true
	case reflect.Array:
		for i := 0; i < a.Len(); i++ {
			if !EqualNilEmpty(a.Index(i), b.Index(i)) {
				return false
			}
		}
		return true
	case reflect.Map:
		if a.Len() != b.Len() {
			return false
		}
		for _, k := range a.MapKeys() {
			bv := b.MapIndex(k)
			if !bv.IsValid() || !EqualNilEmpty(a.MapIndex(k), bv) {
				return false
			}
		}
		return true
	case reflect.Struct:
		for i := 0; i < a.NumField(); i++ {
			if !EqualNilEmpty(a.Field(i), b.Field(i)) {
				return false
			}
		}
		return true
	case reflect.Pointer, reflect.Interface:
		if a.IsNil() || b.IsNil() {
			return a.IsNil() == b.IsNil()
		}
		return EqualNilEmpty(a.Elem(), b.Elem())
	case reflect.Float32, reflect.Float64:
		return a.Float() == b.Float()
	}
	return reflect.DeepEqual(a.Interface(), b.Interface())
}

// CheckValue compares a value compiled from a rendered literal with the original.
func CheckValue(checks *int, fails *[]string, i int, got, want any) {
	*checks++
	if reflect.TypeOf(got) != reflect.TypeOf(want) {
		*fails = append(*fails, fmt.Sprintf("%d: type %T, want %T", i, got, want))
		return
	}
	if !EqualNilEmpty(reflect.ValueOf(got), reflect.ValueOf(want)) {
		*fails = append(*fails, fmt.Sprintf("%d: evaluates to %#v, the original is %#v", i, got, want))
	}
}

// CheckEqualCopy: DeepCopy of the given (hand-built) value is deeply equal to it.
func CheckEqualCopy(checks *int, fails *[]string, name string, ptr any) {
	*checks++
	m := reflect.ValueOf(ptr).MethodByName("DeepCopy")
	if !m.IsValid() {
		*fails = append(*fails, name+": no DeepCopy method")
		return
	}
	res := m.Call(nil)[0]
	if !reflect.DeepEqual(ptr, res.Interface()) {
		*fails = append(*fails, fmt.Sprintf("%s: the copy is not deeply equal to the original: original %#v, copy %#v", name, reflect.ValueOf(ptr).Elem().Interface(), res.Elem().Interface()))
	}
}

// CheckDeepCopyIfAny is CheckDeepCopy for a type that is only reached as a dependency: whether such a type gets
// methods of its own is the generator's choice (the roots that contain it are judged either way); if it has a
// DeepCopy method, that method is held to the same standard.
func CheckDeepCopyIfAny(checks *int, fails *[]string, name string, ptr any) {
	if m := reflect.ValueOf(ptr).MethodByName("DeepCopy"); !m.IsValid() {
		if _, onValue := reflect.TypeOf(ptr).Elem().MethodByName("DeepCopy"); !onValue {
			return
		}
	}
	CheckDeepCopy(checks, fails, name, ptr)
}

// CheckDeepCopy exercises the generated DeepCopy of the value ptr points to.
func CheckDeepCopy(checks *int, fails *[]string, name string, ptr any) {
	fail := func(format string, a ...any) { *fails = append(*fails, name+": "+fmt.Sprintf(format, a...)) }
	pv := reflect.ValueOf(ptr)
	n := 0
	Fill(pv.Elem(), &n)
	snapshot := Clone(pv.Elem())
	recv := pv
	m := recv.MethodByName("DeepCopy")
	if !m.IsValid() {
		fail("no DeepCopy method")
		return
	}
	// nil in, nil out
	*checks++
	func() {
		defer func() {
			if r := recover(); r != nil {
				fail("DeepCopy of nil panicked: %v", r)
			}
		}()
		var res reflect.Value
		if _, onValue := pv.Elem().Type().MethodByName("DeepCopy"); onValue && (pv.Elem().Kind() == reflect.Map || pv.Elem().Kind() == reflect.Slice) {
			res = reflect.Zero(pv.Elem().Type()).MethodByName("DeepCopy").Call(nil)[0]
		} else if onValue {
			return // value receiver on a non-nilable type: no nil case
		} else {
			res = reflect.Zero(pv.Type()).MethodByName("DeepCopy").Call(nil)[0]
		}
		if !res.IsNil() {
			fail("DeepCopy of nil is not nil")
		}
	}()
	*checks++
	cp := m.Call(nil)[0]
	cpElem := cp
	if cp.Kind() == reflect.Pointer {
		if cp.IsNil() {
			fail("DeepCopy of a non-nil value returned nil")
			return
		}
		if cp.Pointer() == pv.Pointer() {
			fail("DeepCopy returned the receiver itself")
		}
		cpElem = cp.Elem()
	}
	if !reflect.DeepEqual(cpElem.Interface(), pv.Elem().Interface()) {
		fail("copy is not deeply equal to the original: %+v vs %+v", cpElem.Interface(), pv.Elem().Interface())
	}
	*checks++
	touched := Mutate(cpElem)
	if !reflect.DeepEqual(pv.Elem().Interface(), snapshot.Interface()) {
		fail("mutating %d slices/maps of the copy changed the original: now %+v, was %+v", touched, pv.Elem().Interface(), snapshot.Interface())
	}
	// the other value shapes: empty-but-non-nil / nil / mixed containers (deep equality tells nil from empty)
	for mode := 1; mode <= 3; mode++ {
		fresh := reflect.New(pv.Elem().Type())
		FillMode = mode
		k := 0
		Fill(fresh.Elem(), &k)
		FillMode = 0
		snap := Clone(fresh.Elem())
		*checks++
		cp := fresh.MethodByName("DeepCopy").Call(nil)[0]
		e := cp
		if cp.Kind() == reflect.Pointer {
			if cp.IsNil() {
				fail("value shape %q: DeepCopy of a non-nil value returned nil", FillModeNames[mode])
				continue
			}
			e = cp.Elem()
		}
		if !reflect.DeepEqual(e.Interface(), fresh.Elem().Interface()) {
			fail("value shape %q: copy is not deeply equal to the original: %#v vs %#v", FillModeNames[mode], e.Interface(), fresh.Elem().Interface())
		}
		Mutate(e)
		if !reflect.DeepEqual(fresh.Elem().Interface(), snap.Interface()) {
			fail("value shape %q: mutating the copy changed the original: now %#v, was %#v", FillModeNames[mode], fresh.Elem().Interface(), snap.Interface())
		}
	}
	// DeepCopyInto into a fresh value
	if into := recv.MethodByName("DeepCopyInto"); into.IsValid() && into.Type().NumIn() == 1 && into.Type().In(0) == pv.Type() {
		*checks++
		dst := reflect.New(pv.Elem().Type())
		into.Call([]reflect.Value{dst})
		if !reflect.DeepEqual(dst.Elem().Interface(), snapshot.Interface()) {
			fail("DeepCopyInto result differs from the original")
		}
		Mutate(dst.Elem())
		if !reflect.DeepEqual(pv.Elem().Interface(), snapshot.Interface()) {
			fail("mutating the DeepCopyInto target changed the original")
		}
	}
}
`
